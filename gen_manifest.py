#!/usr/bin/env python3
"""Writes MANIFEST.json from the tables below (kept in one place so it stays valid)."""
import json, os
ROOT = os.path.dirname(os.path.abspath(__file__))

CLAIMED = {
 "C09": dict(
  text="Bounded model checking of the real codecs: every (S)LEB128 byte string up to the stated length and every u128/i128 "
       "value is decided by the SAT solver against a reference written from the spec with explicit wide arithmetic. "
       "A pass means 'holds for all inputs inside the bound', not for all lengths.",
  note="Trusted: Kani/CBMC/CaDiCaL, rustc MIR semantics as modelled by Kani (debug-assertion semantics), the cut list in "
       "DESIGN.md §2.3 (fmt::format, Error::msg, anyhow drop, Rc::drop_slow), num-bigint behind its documented boundary. "
       "Outside: strings longer than the bound, num-bigint internals.",
  design="§4 C09"),
 "C08": dict(
  text="Bounded model checking of the typed decoder on directly constructed decoder state: for each expected Rust type in the "
       "menu and each wire type in the menu (one concrete wire type per query for options, all 17 primitive wire types "
       "symbolically for primitives/text), all value bytes inside the stated length and all quota configurations are "
       "decided by the solver against a reference decoder + coercion table written from the spec. The 'agrees with untyped "
       "decoding' half is represented by that reference, not by running IDLValue.",
  note="Trusted: Kani/CBMC/CaDiCaL; the cut list of DESIGN §2.3 (incl. trace_type_with_depth guarded cut, binread debug-template "
       "no-ops, From<io::Error> payload cut, pooled Type construction); Outside: header/type-table parsing, principals, "
       "references, enums (binread value readers), IDLValue, std containers with many entries, inputs beyond the stated lengths.",
  design="§4 C08"),
 "C06": dict(
  text="Every C08/C09 decoder harness runs with Kani's default checks on (no panic/unwrap/unreachable, no arithmetic or shift "
       "overflow under debug semantics, no out-of-bounds index or slice, no invalid pointer use) plus 'cursor <= input length', "
       "over all value bytes within the bound, all wire types in the menu and all quota configurations.",
  note="As C08. Outside: the header parser, the untyped decoder, principals/references/enums, stack exhaustion, allocation volume, "
       "termination proportional to quota, inputs longer than the stated bounds, release-only behaviour.",
  design="§4 C06"),
 "C07": dict(
  text="Inside the same decoder harnesses the decoding and skipping quotas are symbolic: a metered run never returns a different "
       "value than the reference, every materialised or skipped value is charged at least one unit (zero-sized values included), "
       "skipped data is charged to the skipping quota, and the charge stays within the documented model plus a small constant.",
  note="As C08. Outside: header cost, references, vectors beyond the stated element counts, untyped decoding.",
  design="§4 C07"),
 "C01": dict(
  text="Per Rust type in the menu (28 shapes: primitives, text, options, tuples, vectors incl. wrapper elements) the value is fully "
       "symbolic: the real serializer's bytes are asserted equal to a reference encoding, and decoding them at the same type returns "
       "the value (floats by bits) and consumes everything - one solver query per type, all values inside the stated element counts.",
  note="As C08. Outside: the thread-local type memo and every 'whatever ran before' history (TLS is cut), recursive/Knot types, derive "
       "field order, the type table, maps/sets, principals/references/enums, Nat/Int as serde targets.",
  design="§4 C01/C03"),
 "C03": dict(
  text="Same harnesses as C01: the value bytes the encoder emits equal, byte for byte, an independent reference encoder written from "
       "the spec's M rules, for every value of each menu type. Value bytes only.",
  note="Outside: the type table (TypeSerialize), untyped IDLValue annotate/encode, service/method ordering, determinism (vacuous in a "
       "deterministic model), derive-macro ordering.",
  design="§4 C01/C03"),
 "C15": dict(
  text="Both real copies of the field hash are decided equal to the spec formula for all valid UTF-8 names up to 8 bytes; Label "
       "equality/order/hash are decided consistent with the numeric id for symbolic labels, including two different names that "
       "collide (the solver finds the colliding spelling); check_unique rejects exactly the colliding sorted sequences.",
  note="Outside: names beyond the byte bound, the derive macro's compile-time sort and record!/variant! macros, the parser's and the "
       "binary header's duplicate checks.",
  design="§4 C15"),
 "C16": dict(
  text="Printing direction and constructors only: Display of every principal of each instantiated length equals a reference text form "
       "(own base32 + bitwise CRC-32) and constructors accept exactly 0..=29 bytes. The parsing direction is NOT covered.",
  note="crc32fast baseline path (SIMD path cut), real data_encoding. Outside: from_text, round trip, canonicity, serde impls, lengths "
       "not instantiated.",
  design="§4 C16"),
 "C20": dict(
  text="Kernel claim only: the private numeric kernels of the random generator (arbitrary_num for u8/i8, "
       "arbitrary_len) return an error or an in-range result and never panic, for 8-bit targets, all configured ranges with |l|,|r| <= 300 (incl. inverted and out-of-type bounds) and all 16-byte entropy strings.",
  note="Outside (most of the property): type-directed generation, depth/size budget, termination on recursive types, text, config "
       "parsing, 'annotates unchanged / encodes'.",
  design="§4 C20"),
}

NA = {
 "C02": "untyped decoding materialises IDLValue trees and needs the binread header parser; neither finishes symbolic execution under Kani (DESIGN §5, probes 3.4, 3.11)",
 "C04": "needs subtype_ on partly symbolic types plus the untyped decoder; smallest query did not finish in 15 min (DESIGN §5, probe 3.21)",
 "C05": "co-inductive subtype checker over symbolic types: every arm incl. HashMap-building ones explored at each recursion level; no answer in 15 min at unwind 3 (probe 3.21)",
 "C10": "every step consumes or produces IDLValue trees; TypeSerialize (BTreeMap<Type,_>) does not finish (probes 3.11, 3.13)",
 "C11": "logos lexer and LALRPOP driver exceed 20 GB on 4 symbolic bytes; printing goes through format!/pretty (probes 3.15, 3.17, 3.18)",
 "C12": "pretty-printer -> lexer -> parser -> type checker over heap ASTs: no stage is within reach of the bounded model checker (probes 3.15-3.18)",
 "C13": "every entry point is lexer + LALRPOP driver; both exceed 20 GB with a single symbolic payload (probes 3.17, 3.18)",
 "C14": "quantifies over programs; check_prog recurses over BTreeMap<String,Type> environments whose input comes from the unreachable parser",
 "C17": "needs a JavaScript evaluator; the generator is string building through the pretty crate",
 "C18": "needs rustc to compile generator output and the derive macro to run on it",
 "C19": "four pretty-printers plus a handlebars template over arbitrary checked programs; determinism is vacuous in a deterministic model",
 # not yet built in this session (moved to claimed as the harnesses land)
 "C01": "harnesses not built yet in this session (planned: DESIGN §4 C01)",
 "C03": "harnesses not built yet in this session (planned: DESIGN §4 C03)",
 "C06": "harnesses not built yet in this session (planned: DESIGN §4 C06)",
 "C07": "harnesses not built yet in this session (planned: DESIGN §4 C07)",
 "C08": "harnesses not built yet in this session (planned: DESIGN §4 C08)",
 "C15": "harnesses not built yet in this session (planned: DESIGN §4 C15)",
 "C16": "harnesses not built yet in this session (planned: DESIGN §4 C16)",
 "C20": "harnesses not built yet in this session (planned: DESIGN §4 C20)",
}

def main():
    checks = []
    for pid, c in sorted(CLAIMED.items()):
        checks.append({
            "property_id": pid,
            "quick_cmd": f"python3 run.py {pid} --tier quick",
            "thorough_cmd": f"python3 run.py {pid} --tier thorough",
            "evidence_file": f"/verif/evidence/{pid}.json",
            "replay_cmd_template": "python3 run.py --replay {path}",
            "engine": "kani",
            "level_claimed": {"category": "model_checking", "text": c["text"], "design_ref": c["design"]},
            "level_note": c["note"],
            "technique": "bounded symbolic execution of the compiled Rust code (Kani 0.68 -> CBMC 6.11), decided by the CaDiCaL SAT solver; counterexamples replayed natively",
        })
    m = {
        "version": 1,
        "setup_cmd": "python3 run.py --setup",
        "hooks": {
            "guard": "cfg(kani)",
            "enable": "set by `cargo kani` only (RUSTUP_TOOLCHAIN=nightly-2026-08-21-x86_64-unknown-linux-gnu cargo kani -Z stubbing ...); run.py does this",
            "baseline_off_cmd": "cd /repo && RUSTUP_TOOLCHAIN=stable-x86_64-unknown-linux-gnu CARGO_NET_OFFLINE=true cargo test --workspace --no-fail-fast --offline",
            "source_commits": HOOK_COMMITS,
            "add_only": True,
        },
        "engines": [{"name": "kani", "path": "/verif/run.py", "serves_properties": sorted(CLAIMED),
                     "kind_free_text": "Kani 0.68.0 (rustc MIR -> goto-program) + CBMC 6.11.0 + CaDiCaL; harnesses in /verif/kani"}],
        "checks": checks,
        "notes": "One technique throughout: solver-based bounded checking of the real code. See DESIGN.md.",
        "not_applicable": [{"property_id": k, "reason": v} for k, v in sorted(NA.items()) if k not in CLAIMED],
    }
    json.dump(m, open(os.path.join(ROOT, "MANIFEST.json"), "w"), indent=1)

HOOK_COMMITS = ["8d450e4"]
if __name__ == "__main__":
    main()

#!/bin/bash
# emulate a fresh restore: no build directories
cd /verif
python3 run.py --clean
/usr/bin/time -f "setup %e s" python3 run.py --setup
for p in C09 C15 C16 C20 C01 C03 C06 C07 C08; do
  /usr/bin/time -f "$p quick %e s" python3 run.py $p --tier quick > logs/final_$p.log 2>&1
  echo "$p exit $?" 
  grep -a "quick .* s$\|tier=quick\|^INFRA\|^VIOLATION" logs/final_$p.log | tail -4
done
echo FINAL-DONE

"""Registry of Kani harnesses: which property, where the harness lives, the bound
it states, what it asserts, and its resource caps. run.py executes these."""

MEMCMP_ = ["--unwindset", "memcmp.0:40"]
BASE_STUBS_EXT = [
    "<candid::Error as std::convert::From<std::io::Error>>::from",
    "alloc::fmt::format",
    "candid::Error::msg",
    "stacker::remaining_stack",
    "<::anyhow::Error as std::ops::Drop>::drop",
    "std::rc::Rc::drop_slow",
]
BASE_STUBS_CANDID = [
    "crate::types::type_env::TypeEnv::trace_type_with_depth",
    "binread::binary_template::write_start_struct",
    "<crate::Error as std::convert::From<std::io::Error>>::from",
    "alloc::fmt::format",
    "crate::Error::msg",
    "stacker::remaining_stack",
    "<::anyhow::Error as std::ops::Drop>::drop",
    "std::rc::Rc::drop_slow",
]
BASE_STUBS_PARSER = [
    "crate::Error::msg",
    "alloc::fmt::format",
    "<::anyhow::Error as std::ops::Drop>::drop",
]


class H:
    def __init__(self, prop, name, loc, module, bound, what, quick=True, est_s=60, cap_s=None,
                 mem_gb=20, cbmc_args=None, stubs=None, exact=False):
        self.props = [prop] if isinstance(prop, str) else list(prop)
        self.prop = self.props[0]
        self.name, self.loc, self.module = name, loc, module
        self.bound, self.what, self.quick = bound, what, quick
        self.est_s = est_s
        self.cap_s = cap_s or max(600, est_s * 4)
        self.mem_gb = mem_gb
        self.cbmc_args = cbmc_args or []
        self.extra_stubs = stubs or []
        self.exact = exact

    def required_stubs(self):
        base = {"ext": BASE_STUBS_EXT, "candid": BASE_STUBS_CANDID, "parser": BASE_STUBS_PARSER}[self.loc]
        return base + self.extra_stubs

    @property
    def full_name(self):
        if self.loc == "ext":
            return f"{self.module}::{self.name}"
        if self.loc == "candid":
            return f"de::verif_kani::{self.module}::{self.name}"
        return f"random::verif_kani::{self.name}"

    @property
    def playback_prelude(self):
        if self.loc == "ext":
            return f" #[allow(unused_imports)] use crate::{self.module}::*;"
        if self.loc == "parser":
            return " #[allow(unused_imports)] use super::*;"
        return f" #[allow(unused_imports)] use super::{self.module}::*;"


ALL = []


def add(*a, **k):
    ALL.append(H(*a, **k))


# ---------------------------------------------------------------------------
# C09
DEC_WHAT_NAT = ("leb128::decode_nat: no panic/overflow; unterminated => Err; value >= 2^128 => Err; otherwise "
                "Ok(mathematical value) and exactly the string's bytes consumed (oracle: explicit wide arithmetic from the spec)")
DEC_WHAT_INT = "leb128::decode_int: same, signed (two's complement of 7n bits), range is i128"
for n, q, est in ((20, True, 30), (28, True, 60), (40, False, 200)):
    b = (f"all 2^{8*n} buffers of {n} bytes = every string whose first terminator lies within {n} bytes (minimal and "
         f"padded) plus the unterminated ones of length {n}; unwind {n+2}")
    add("C09", f"c09_dec_nat128_eq{n}", "ext", "c09_leb128", b, DEC_WHAT_NAT, quick=q, est_s=est)
    add("C09", f"c09_dec_int128_eq{n}", "ext", "c09_leb128", b, DEC_WHAT_INT, quick=q, est_s=est)
add("C09", "c09_dec_nat128_le6", "ext", "c09_leb128", "all byte strings of symbolic length 0..=6 (EOF at every position)",
    DEC_WHAT_NAT, est_s=20)
add("C09", "c09_dec_int128_le6", "ext", "c09_leb128", "all byte strings of symbolic length 0..=6 (EOF at every position)",
    DEC_WHAT_INT, est_s=20)
add("C09", "c09_dec_nat128_le20", "ext", "c09_leb128", "all byte strings of symbolic length 0..=20", DEC_WHAT_NAT,
    quick=False, est_s=400, cap_s=3600)
add("C09", "c09_dec_int128_le20", "ext", "c09_leb128", "all byte strings of symbolic length 0..=20", DEC_WHAT_INT,
    quick=False, est_s=400, cap_s=3600)
add("C09", "c09_enc_nat128", "ext", "c09_leb128", "all u128 values",
    "leb128::encode_nat output == reference minimal LEB128, byte for byte, length <= 19", est_s=30)
add("C09", "c09_enc_int128", "ext", "c09_leb128", "all i128 values",
    "leb128::encode_int output == reference minimal SLEB128, byte for byte, length <= 19", est_s=30)

add("C09", "c09_fast_u64_le11", "candid", "de_c09",
    "any buffer of 0..=11 symbolic bytes, any start offset; unwind 13",
    "Deserializer::try_read_leb_u64: Ok(Some(v)) => v is the LEB128 value and the cursor advanced by exactly the string; "
    "Err only on unterminated input (declining is internal and not asserted)", est_s=60)
add("C09", "c09_fast_i64_le11", "candid", "de_c09",
    "any buffer of 0..=11 symbolic bytes, any start offset; unwind 13",
    "Deserializer::try_read_leb_i64: same, signed", est_s=60)
BN_DEC = ("Nat/Int::decode with the num-bigint boundary recorded: Ok, consumes exactly the string, and the mathematical value "
          "handed to num-bigint (From<u64/i64>, or from_radix_le digits base 128 [minus 2^(7n) iff the sign bit is set]) equals the "
          "(S)LEB128 value computed by the oracle; which constructor is used is not asserted")
for n in (1, 5, 9, 10):
    if n == 1:
      add("C09", f"c09_nat_dec_len{n}", "ext", "c09_bignum", f"all LEB128 strings of exactly {n} bytes (continuation bits forced)",
        BN_DEC, quick=n in (9,), est_s=200, cap_s=1800, mem_gb=28,
        stubs=["num_bigint::BigUint::from_radix_le", "<num_bigint::BigUint as std::convert::From<u64>>::from"])
    add("C09", f"c09_int_dec_len{n}", "ext", "c09_bignum", f"all SLEB128 strings of exactly {n} bytes (continuation bits forced)",
        BN_DEC, quick=True, est_s=200, cap_s=1800, mem_gb=28,
        stubs=["num_bigint::BigUint::from_radix_le", "<num_bigint::BigInt as std::convert::From<i64>>::from"])
for n in range(9, 17):
    add("C09", f"c09_int_enc_big{n}", "ext", "c09_bignum",
        f"all integers whose minimal two's-complement form has exactly {n} bytes (to_i64 -> None, to_signed_bytes_le returns "
        f"the minimal bytes by contract)",
        "Int::encode (hand-written 8->7 bit repacking) emits exactly the minimal SLEB128 of the value", quick=n in (9, 12, 16),
        est_s=250, cap_s=1800, stubs=["num_bigint::BigInt::to_signed_bytes_le"])
for n in (10, 11, 14, 19):
    add("C09", f"c09_nat_enc_big{n}", "ext", "c09_bignum",
        f"all naturals > u64::MAX with exactly {n} base-128 digits (to_u64 -> None, to_radix_le returns the digits by contract)",
        "Nat::encode emits exactly the minimal LEB128 of the value", quick=True, est_s=120, cap_s=1800,
        stubs=["num_bigint::BigUint::to_radix_le"])

U128_WHAT = ("deserialize_u128 on constructed decoder state: Ok => wire is nat, value == LEB128 value, bytes consumed == "
             "string; in-range nat without quota => Ok; cursor never beyond input; no panic")
I128_WHAT = ("deserialize_i128: Ok => wire is int (SLEB128 value) or nat (LEB128 value <= i128::MAX), bytes consumed == "
             "string; in-range without quota => Ok; no panic")
add("C09", "c09_de_u128_eq20", "candid", "de_c09",
    "20 symbolic value bytes x wire type over 17 primitive types x symbolic quotas", U128_WHAT, est_s=120)
add("C09", "c09_de_i128_eq20", "candid", "de_c09",
    "20 symbolic value bytes x wire type over 17 primitive types x symbolic quotas", I128_WHAT, est_s=120)
add("C09", "c09_de_u128_le4", "candid", "de_c09",
    "symbolic length 0..=4 x wire type over 17 primitive types x symbolic quotas", U128_WHAT, est_s=60)
add("C09", "c09_de_i128_le4", "candid", "de_c09",
    "symbolic length 0..=4 x wire type over 17 primitive types x symbolic quotas", I128_WHAT, est_s=60)

PRIM_BOUND = ("all value buffers of symbolic length 0..=width+1 x wire type symbolic over the 17 primitive types x "
              "symbolic decoding/skipping quota x symbolic error verbosity")
PRIM_WHAT = ("T::deserialize on constructed decoder state: no panic, cursor <= len; Ok(v) => wire == expected, bytes "
             "well-formed, v == little-endian reference, consumed == width, 1 <= cost <= width+2; no quota and "
             "well-formed value of the expected type => Ok")
for t, est in (("bool", 40), ("u8", 40), ("u16", 40), ("u32", 40), ("u64", 60), ("i8", 40), ("i16", 40), ("i32", 40),
               ("i64", 60), ("f32", 40), ("f64", 60)):
    add(["C08", "C06", "C07"], f"c08_prim_{t}", "candid", "de_prim", PRIM_BOUND, PRIM_WHAT,
        quick=t in ("bool", "u16", "i64", "f32"), est_s=est)
TEXT_WHAT = ("text target: Ok(s) => wire is text, LEB length prefix (minimal or padded) + that many UTF-8 bytes, s equals "
             "them, consumed exactly, 1 <= cost <= |t|+3; well-formed text without quota => Ok; never reads outside")
add(["C08", "C06", "C07"], "c08_text_str_le5", "candid", "de_prim",
    "symbolic length 0..=5 bytes x 17 wire prims x symbolic quotas", TEXT_WHAT + " (&str, borrowed)", est_s=120)
add(["C08", "C06", "C07"], "c08_text_string_le4", "candid", "de_prim",
    "symbolic length 0..=4 bytes x 17 wire prims x symbolic quotas", TEXT_WHAT + " (String, owned)", quick=False, est_s=120)
add(["C08", "C06"], "c08_text_str_eq12", "candid", "de_prim",
    "all 12-byte buffers (length prefixes of up to 10 LEB128 bytes: huge, padded, > 2^64) x 17 wire prims x symbolic quotas",
    TEXT_WHAT + " (&str; hostile length prefixes)", quick=False, est_s=2400, cap_s=5400, mem_gb=28)
add(["C08", "C06", "C07"], "c08_unit", "candid", "de_prim", "0..=2 bytes x 17 wire prims x symbolic quotas",
    "() target: Ok => wire null, nothing consumed, cost >= 1 (zero-sized values are not free)", est_s=40)

# ---------------------------------------------------------------------------
# C15
HASH_WHAT = ("candid::idl_hash(s) == candid_derive's idl_hash(s) (source slice extracted from /repo at build time) == the "
             "spec formula (Horner fold in u64 with explicit mod 2^32) for every valid UTF-8 string inside the bound")
add("C15", "c15_hash_two_copies_le5", "ext", "c15_hash", "all valid UTF-8 strings of 0..=5 bytes (symbolic length)", HASH_WHAT,
    est_s=120)
add("C15", "c15_hash_two_copies_le8", "ext", "c15_hash", "all valid UTF-8 strings of 0..=8 bytes (symbolic length)", HASH_WHAT,
    quick=False, est_s=600, cap_s=3600)
LABEL_WHAT = ("a == b <=> get_id equal; cmp and partial_cmp are the id ordering; equal labels hash equally (recording "
              "Hasher); Named(s).get_id() == spec hash; Id(hash(s)) == Named(s)")
for n, d, q in (("c15_label_n2_id", "Named(2 symbolic ASCII bytes) vs Id(any u32)", True),
                ("c15_label_n3_unnamed", "Named(3 symbolic ASCII bytes) vs Unnamed(any u32)", True),
                ("c15_label_n2_n2", "Named(2 bytes) vs Named(2 bytes)", True),
                ("c15_label_n1_n2", "Named(1 byte) vs Named(2 bytes)", True),
                ("c15_label_id_unnamed", "Id(any u32) vs Unnamed(any u32)", True)):
    add("C15", n, "ext", "c15_hash", d, LABEL_WHAT, quick=q, est_s=200, cap_s=2400)
add("C15", "c15_label_collision_suffix2", "ext", "c15_hash",
    "Named(\"lraubw\") vs Named(\"qdyh\" + 2 symbolic lower-case letters): the solver must find the colliding spelling",
    LABEL_WHAT + "; two different names with one id are equal, hash equally and are rejected by check_unique", est_s=120, cap_s=2400)
add("C15", "c15_label_collision_suffix4", "ext", "c15_hash",
    "Named(\"lraubw\") vs Named(\"qd\" + 4 symbolic lower-case letters)",
    LABEL_WHAT + "; two different names with one id are equal, hash equally and are rejected by check_unique",
    est_s=200, cap_s=3600)
for n, d in (("c15_check_unique_n2_id_u", "[Named(2 bytes), Id(any), Unnamed(any)] sorted by id"),
             ("c15_check_unique_id_n1_n2", "[Id(any), Named(1 byte), Named(2 bytes)] sorted by id")):
    add("C15", n, "ext", "c15_hash", d,
        "utils::check_unique returns Err exactly when two neighbours have equal ids (incl. a name colliding with a numeric id)",
        est_s=200, cap_s=2400)

# ---------------------------------------------------------------------------
# C16
CRC_STUB = ["crc32fast::Hasher::internal_new_specialized"]
for n in (3, 6):
    add("C16", f"c16_crc_ref_len{n}", "ext", "c16_principal", f"all {n}-byte inputs",
        "crc32fast::hash (baseline table implementation) == bitwise CRC-32 from the definition", est_s=60, stubs=CRC_STUB,
        quick=(n == 3))
for n in (0, 1, 2, 3, 4, 5, 6, 9, 10):
    add("C16", f"c16_display_len{n}", "ext", "c16_principal", f"all principals of exactly {n} bytes",
        "<Principal as Display>::fmt on a fixed sink == reference text: lower-case RFC4648 base32 of CRC32(bytes) big-endian ++ "
        "bytes, '-' after every 5th character and never last (reference base32 and bitwise CRC written from the spec)",
        quick=n in (0, 1, 2), est_s=300, cap_s=3600, stubs=CRC_STUB)
add("C16", "c16_ctor_len", "ext", "c16_principal", "all slices of symbolic length 0..=40",
    "try_from_slice is Ok exactly for length <= 29 and stores exactly the input bytes and length", est_s=120)

# ---------------------------------------------------------------------------
# C01 / C03: round trip through the real serializer, reference encoder and real decoder
RT_WHAT = ("v fully symbolic: real ValueSerializer output == reference encoding written from the spec's M rules, byte for "
           "byte (C03); decoding those bytes at the same Candid type returns Ok(v') with v' == v (floats by bits) and "
           "consumes every byte (C01)")
RT = [("ascii2", "all ASCII Strings of exactly 2 bytes"), ("bool", "all bool"), ("u8", "all u8"), ("u16", "all u16"), ("u32", "all u32"), ("u64", "all u64"), ("i8", "all i8"),
      ("i16", "all i16"), ("i32", "all i32"), ("i64", "all i64"), ("f32", "all f32 bit patterns incl. NaNs"),
      ("f64", "all f64 bit patterns incl. NaNs"), ("unit", "()"), ("string0", "empty String"),
      ("string2", "all valid UTF-8 Strings of exactly 2 bytes"), ("string3", "all valid UTF-8 Strings of exactly 3 bytes"),
      ("opt_u8", "all Option<u8>"), ("opt_opt_bool", "all Option<Option<bool>>"),
      ("opt_string", "None | Some(2-byte UTF-8 String)"), ("tuple_u8_i32", "all (u8, i32)"),
      ("tuple_bool_u16", "all (bool, u16)"), ("vec_u8_2", "all Vec<u8> of 2 elements"),
      ("vec_u16_2", "all Vec<u16> of 2 elements (bulk little-endian path)"), ("vec_i64_1", "all Vec<i64> of 1 element"),
      ("vec_bool_2", "all Vec<bool> of 2 elements"), ("vec_f32_1", "all Vec<f32> of 1 element"),
      ("vec_empty_u32", "empty Vec<u32>"), ("vec_opt_u8_2", "all Vec<Option<u8>> of 2 elements (element-wise path)"),
      ("vec_string_1", "Vec<String> of one 2-byte string")]
RT += [("vec_box_u64_1", "all Vec<Box<u64>> of 1 element (wrapper element type)"),
       ("vec_box_u32_2", "all Vec<Box<u32>> of 2 elements (wrapper element type)")]
RT_QUICK = {"bool", "u16", "i64", "f32", "f64", "unit", "string0", "tuple_u8_i32", "vec_u16_2", "vec_bool_2", "vec_u8_2", "vec_empty_u32"}
# not registered (no answer within 3600 s on the repaired tree): every shape with a non-empty String, and two heavy shapes
RT_DROPPED = {"ascii2", "string2", "string3", "opt_string", "vec_string_1", "tuple_bool_u16", "vec_opt_u8_2"}
for n, d in [x for x in RT if x[0] not in RT_DROPPED]:
    add(["C01", "C03"], f"c01_rt_{n}", "candid", "de_rt", d, RT_WHAT, quick=n in RT_QUICK, est_s=90, cap_s=600 if n in RT_QUICK else 3600,
        cbmc_args=MEMCMP_)

MEMCMP = ["--unwindset", "memcmp.0:40"]
PRIMS = ["null", "bool", "nat", "int", "nat8", "nat16", "nat32", "nat64", "int8", "int16", "int32", "int64", "f32", "f64",
         "text", "reserved", "empty"]
OPT_WHAT = ("Option<T>::deserialize vs the spec's opt coercion (reference decoder in the harness): null/reserved -> None; "
            "opt W' flag 0 -> None; flag 1 or plain W: value read, Some(v) iff W <: T else None (value skipped through "
            "deserialize_ignored_any/deserialize_any); malformed bytes or bad flag -> Err even below opt; exact bytes "
            "consumed; skipped data charged to the skipping quota; option never free; no panic; cursor <= len")
QUICK_OPT = {"c08_opt_u8_w_nat8", "c08_opt_u8_wo_bool", "c08_opt_u8_wo_nat8"}
for under, tag in ((False, "w"), (True, "wo")):
    for p in PRIMS:
        n = f"c08_opt_u8_{tag}_{p}"
        bn = p in ("nat", "int")
        add(["C08", "C06", "C07"], n, "candid", "de_opt",
            f"expected opt nat8, wire {'opt ' if under else ''}{p} (concrete, pooled); all value buffers of the fixed length "
            f"chosen for that wire type; symbolic decoding+skipping quotas and error verbosity", OPT_WHAT,
            quick=n in QUICK_OPT, est_s=200 if p in ("text", "nat", "int") else 60, cap_s=3000 if p == "text" else None,
            cbmc_args=MEMCMP,
            stubs=["num_bigint::BigUint::from_radix_le"] if bn else [])
# c08_opt_u8_wo_blob_eq12 (skipped blob with hostile length below an option) is not registered: OOM at 20 GB.
RES_WHAT = ("candid::Reserved at expected reserved: every well-formed wire value is accepted and skipped (exact consumption, charged "
            "to the skipping quota unless the wire type is reserved itself... see harness), malformed bytes rejected; no panic")
for p in [x for x in PRIMS if x != "nat"]:   # wire nat: OOM at 21 GB
    add(["C08", "C06", "C07"], f"c08_reserved_w_{p}", "candid", "de_opt",
        f"wire {p} (concrete, pooled), all value bytes of the fixed length chosen for it; symbolic quotas and error verbosity",
        RES_WHAT, quick=False, est_s=120 if p not in ("text", "nat", "int") else 400, cap_s=2400,
        cbmc_args=MEMCMP, stubs=["num_bigint::BigUint::from_radix_le"] if p in ("nat", "int") else [])
for n, d in (("c08_opt_u8_wo_text_n2", "expected opt nat8, wire opt text, 2 value bytes (truncated text below opt)"),
             ("c08_opt_bool_wo_bool", "expected opt bool, wire opt bool, 3 bytes (0x02 payload below opt is an error)"),
             ("c08_opt_bool_wo_nat8", "expected opt bool, wire opt nat8, 3 bytes"),
             ("c08_opt_bool_wo_text", "expected opt bool, wire opt text, 4 bytes"),
             ("c08_opt_bool_w_bool", "expected opt bool, wire bool, 2 bytes"),
             ("c08_opt_bool_w_nat8", "expected opt bool, wire nat8, 2 bytes")):
    add(["C08", "C06", "C07"], n, "candid", "de_opt", d + "; symbolic quotas", OPT_WHAT, quick=n in QUICK_OPT, est_s=90,
        cap_s=3000 if "text" in n else None, cbmc_args=MEMCMP)

# ---------------------------------------------------------------------------
# specialised decoding paths (C08/C06) and three-run quota harnesses (C07)
BYTES_WHAT = ("expected vec nat8: Ok => wire is vec nat8 (the only wire type the generic rules accept), bytes == wire payload, "
              "exact consumption; well-formed blob without quota => Ok; no panic; cursor <= len")
for tgt, T in (("bytes", "&[u8] (deserialize_bytes, borrowed)"), ("bytebuf", "serde_bytes::ByteBuf (deserialize_byte_buf, owned)")):
    for w in ("blob", "text", "vec_int8", "vec_bool") + (("nat8",) if tgt == "bytes" else ()):
        add(["C08", "C06"], f"c08_{tgt}_w_{w}", "candid", "de_fast",
            f"{T}; wire type {w} (concrete, pooled); 4 symbolic bytes with a one-byte length prefix; symbolic quotas",
            BYTES_WHAT, quick=(w in ("blob", "text") and tgt == "bytes") or (tgt == "bytebuf" and w == "text"), est_s=120, cbmc_args=MEMCMP)
for w, q in (("nat16", False), ("int16", False), ("nat8", False), ("nat32", False), ("bool", False)):
    add(["C08", "C06", "C07"], f"c08_vec_u16_w_{w}", "candid", "de_fast",
        f"Vec<u16> at expected vec nat16, wire vec {w}; element count 2 (constant length byte), 4 symbolic payload bytes; symbolic quotas",
        "Ok => wire element type is nat16, elements == little-endian wire bytes (bulk path), consumed 5 bytes, elements charged; "
        "well-formed vec nat16 without quota => Ok", quick=q, est_s=120, cbmc_args=MEMCMP)
add(["C06", "C08"], "c06_vec_u16_hostile_len", "candid", "de_fast",
    "vec nat16 with a symbolic (possibly huge / padded) LEB128 length prefix in 10 symbolic bytes, non-allocating visitor",
    "no panic / arithmetic overflow for any length; Ok exactly when length*2 fits the remaining input, then count and "
    "consumption match; otherwise Err", quick=False, est_s=400, cap_s=2400, cbmc_args=MEMCMP)
LENREAD_WHAT = ("the kernel of every length-prefixed value (read_len; add_cost(len+1); borrow_bytes(len)) on an arbitrary buffer and start "
                "offset: no panic / overflow for any prefix (padded, >= 2^63, > 2^64); Ok => slice is exactly the payload the "
                "prefix announces, inside the input, consumption exact, payload charged; a value that fits (prefix within 9 "
                "bytes, no quota) => Ok; unterminated/oversized => Err")
add("C06", "c06_len_prefixed_read_eq12", "candid", "de_fast",
    "all 12-byte buffers x any start offset 0..=12 x symbolic quotas", LENREAD_WHAT, quick=True, est_s=60, cbmc_args=MEMCMP)
add("C06", "c06_len_prefixed_read_eq16", "candid", "de_fast",
    "all 16-byte buffers x any start offset 0..=16 x symbolic quotas", LENREAD_WHAT, quick=False, est_s=120, cbmc_args=MEMCMP)
add(["C06", "C07"], "c06_vec_null_bomb", "candid", "de_fast",
    "vec null with a symbolic length prefix (10 symbolic bytes), decoding quota symbolic <= 20",
    "zero-sized elements are not free: a successful decode materialised at most quota elements; space bombs are stopped",
    quick=False, est_s=500, cap_s=2400, cbmc_args=MEMCMP)
TUP_WHAT = ("Rust tuple at a positional record vs the spec's record coercion (reference in the harness): surplus wire fields dropped "
            "AND their bytes consumed, missing optional field -> None, mismatching optional field -> None (value skipped), "
            "missing/ill-typed required field -> Err; exact value and consumption; no panic")
# (the (u8,Option<u8>) shapes of de_tuple.rs ran out of memory at 20 GB and are not registered)
for n, d, q in (("surplus", "(u8,bool), wire record{0:nat8;1:bool;2:nat8}, unmetered", False),
                ):   # ("missing_required": passed before fix fc40360, times out at 3000 s on the repaired tree)
    add(["C08", "C06", "C07"], f"c08_tuple_{n}", "candid", "de_tuple", d + "; all value bytes; symbolic quotas", TUP_WHAT, quick=q,
        est_s=700, cap_s=3000, mem_gb=28, cbmc_args=MEMCMP)

# Struct-visitor harnesses (c08_struct_*, c15_struct_symbolic_id; source in de_struct.rs) are NOT registered:
# a derive(Deserialize) struct {a:u8,b:Option<u8>} ran out of memory (12-20 GB, 17-29 min) for every wire shape.
# Map-style harnesses (c08_map_*) are NOT registered: Kani 0.68 mis-projects the tuple fields of
# de::Style::Map { expect: (Type,Type), wire: (Type,Type) } (expect.1 / wire.1 read back wrong, probe
# dbg_pooled_record_fields), so every verdict through Compound's Map style is unsound in both directions.
# The replay guard exposed it (counterexamples that pass natively). Source kept in de_fast.rs for the record.
BV_WHAT = "Ok <=> count <= MAX_LEN and every element <= MAX_ELEM and sum <= MAX_TOTAL (and the vector fits the input)"
add("C08", "c08_bvec_u8_len3_total8", "candid", "de_fast", "BoundedVec<3,8,1,u8>, symbolic count 0..127 in 7 bytes", BV_WHAT, est_s=200,
    cap_s=2400, cbmc_args=MEMCMP)
add("C08", "c08_bvec_u8_len8_total3", "candid", "de_fast", "BoundedVec<8,3,1,u8>, symbolic count 0..127 in 7 bytes", BV_WHAT, quick=False, est_s=200,
    cap_s=2400, cbmc_args=MEMCMP)
add("C08", "c08_bvec_u64_total16", "candid", "de_fast", "BoundedVec<4,16,8,u64>, symbolic count 0..3, 24 symbolic payload bytes",
    BV_WHAT + " — two u64 reach the total limit exactly", est_s=200, cap_s=2400, cbmc_args=MEMCMP)
Q3_WHAT = ("three decoder runs on the same symbolic bytes: unmetered / quotas (dq,sq) / quotas (dq',sq') >= : metered Ok => same "
           "value and cursor as unmetered; success monotone in both quotas; compute_cost equal in both metered runs; cost >= "
           "values materialised or skipped; cost <= documented model (+ small constant, 50x for skipped data); a decode never "
           "succeeds with a quota below its own cost; an honest message is rejected only if a quota is below the measured cost")
for n, d, q in (("u32", "u32 at nat32, 4 bytes", True), ("str", "&str at text, 3 bytes", False),
                ("opt_same", "Option<u8>, wire opt nat8, 2 bytes", False),
                ("opt_skip", "Option<u8>, wire opt bool (back-tracking, skipped payload, 50x penalty), 2 bytes", False),
                ("plain_skip", "Option<u8>, wire nat16 (skipped), 2 bytes", False)):
    add("C07", f"c07_q3_{n}", "candid", "de_quota", d + "; all quota pairs (Option<usize> x Option<usize>) twice", Q3_WHAT, quick=q,
        est_s=300, cap_s=2400, cbmc_args=MEMCMP)

# ---------------------------------------------------------------------------
# C20 (kernel claim)
# (wider instances u16..u128 found the inverted-range panic on the pinned tree in 30-50 s each, but cannot be *proved*
#  after the fix: symbolic 64-bit modulus; they are not registered)
for t in ("u8", "i8"):
    add("C20", f"c20_num_{t}", "parser", "", f"configured ranges None | Some((l,r)) with |l|,|r| <= 300 x all 16-byte entropy strings, T = {t}",
        "random::arbitrary_num::<T>: Err or a value inside T and inside the range clamped to T; no panic for any range "
        "(incl. l > r and bounds outside T)", est_s=300, cap_s=2400)
# c20_variant_w{0..3} (arbitrary_variant) are not registered: no answer within 600 s / 15 GB even for the empty slice.
add("C20", "c20_len_width", "parser", "", "width Option<usize> symbolic, 8 entropy bytes",
    "random::arbitrary_len: Ok(n) => n <= width (or <= available entropy); no panic", est_s=60)

OUTSIDE = {
    "C20": "most of the property: type-directed generation, depth/size budget and termination on recursive types, text via the "
           "fake crate, config parsing, 'annotates unchanged / encodes' (all need IDLValue trees)",
    "C16": "the parsing direction (Principal::from_text, round trip, 'every accepted text is canonical'): did not finish "
           "symbolic execution within 20 min in two variants; the pclmulqdq CRC path (baseline verified instead); serde "
           "impls; the wire cap of 29 bytes (binread reader); payload lengths not instantiated (29 bytes ran out of memory at "
           "20 GB; lengths 0-6, 9, 10 cover every length mod 5)",
    "C15": "names longer than the byte bound; the derive macro's compile-time sort and the record!/variant! macros (macro "
           "expansion is not symbolically executable; the functions they call are covered); the text parser's and the binary "
           "header's duplicate checks (lexer/parser/binread unreachable)",
    "C09": "LEB strings longer than the per-harness byte bound; num-bigint's own arithmetic (boundary stubbed in the "
           "Nat/Int harnesses); bignum values beyond the stated digit counts",
}
ASSUMPTIONS = {
    "C09": ["Kani models malloc as never failing", "error payloads are not inspected (Error::msg cut)"],
}

"""Registry of Kani harnesses: which property, where the harness lives, the bound
it states, what it asserts, and its resource caps. run.py executes these."""

BASE_STUBS_EXT = [
    "alloc::fmt::format",
    "candid::Error::msg",
    "stacker::remaining_stack",
    "<::anyhow::Error as std::ops::Drop>::drop",
    "std::rc::Rc::drop_slow",
]
BASE_STUBS_CANDID = [
    "alloc::fmt::format",
    "crate::Error::msg",
    "stacker::remaining_stack",
    "<::anyhow::Error as std::ops::Drop>::drop",
    "std::rc::Rc::drop_slow",
]
BASE_STUBS_PARSER = [
    "alloc::fmt::format",
]


class H:
    def __init__(self, prop, name, loc, module, bound, what, quick=True, est_s=60, cap_s=None,
                 mem_gb=20, cbmc_args=None, stubs=None, exact=False):
        self.prop, self.name, self.loc, self.module = prop, name, loc, module
        self.bound, self.what, self.quick = bound, what, quick
        self.est_s = est_s
        self.cap_s = cap_s or max(600, est_s * 4)
        self.mem_gb = mem_gb
        self.cbmc_args = cbmc_args or []
        self.extra_stubs = stubs or []
        self.exact = exact

    def required_stubs(self):
        base = {"ext": BASE_STUBS_EXT, "candid": BASE_STUBS_CANDID, "parser": BASE_STUBS_PARSER}[self.loc]
        return base + self.extra_stubs

    @property
    def playback_prelude(self):
        if self.loc == "ext":
            return f" #[allow(unused_imports)] use crate::{self.module}::*;"
        return f" #[allow(unused_imports)] use super::{self.module}::*;"


ALL = []


def add(*a, **k):
    ALL.append(H(*a, **k))


# ---------------------------------------------------------------------------
# C09
add("C09", "c09_dec_nat128_le20", "ext", "c09_leb128",
    "all byte strings of length 0..=20 (2^160 strings, symbolic length); unwind 22",
    "leb128::decode_nat: no panic/overflow; unterminated => Err; value >= 2^128 => Err; otherwise Ok(mathematical value) "
    "and exactly the string's bytes consumed (oracle: explicit wide arithmetic written from the spec)", est_s=60)
add("C09", "c09_dec_int128_le20", "ext", "c09_leb128",
    "all byte strings of length 0..=20, symbolic length; unwind 22",
    "leb128::decode_int: same, signed (two's complement of 7n bits), range is i128", est_s=300)
add("C09", "c09_dec_nat128_le24", "ext", "c09_leb128",
    "all byte strings of length 0..=24 (padded encodings up to 5 bytes beyond the 19-byte maximum)",
    "as c09_dec_nat128_le20", quick=False, est_s=120)
add("C09", "c09_dec_int128_le24", "ext", "c09_leb128",
    "all byte strings of length 0..=24", "as c09_dec_int128_le20", quick=False, est_s=1200, cap_s=5400)
add("C09", "c09_enc_nat128", "ext", "c09_leb128", "all u128 values",
    "leb128::encode_nat output == reference minimal LEB128, byte for byte, length <= 19", est_s=30)
add("C09", "c09_enc_int128", "ext", "c09_leb128", "all i128 values",
    "leb128::encode_int output == reference minimal SLEB128, byte for byte, length <= 19", est_s=30)

OUTSIDE = {
    "C09": "LEB strings longer than the per-harness byte bound; num-bigint's own arithmetic (boundary stubbed in the "
           "Nat/Int harnesses); bignum values beyond the stated digit counts",
}
ASSUMPTIONS = {
    "C09": ["Kani models malloc as never failing", "error payloads are not inspected (Error::msg cut)"],
}

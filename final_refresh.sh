#!/bin/bash
cd /verif
for p in C09 C15 C16 C20 C01 C03 C06 C07 C08; do
  /usr/bin/time -f "$p quick %e s" python3 run.py $p --tier quick --jobs 6 > logs/final_$p.log 2>&1
  echo "$p exit $?"
  grep -a "quick .* s$\|tier=quick\|^INFRA\|^VIOLATION" logs/final_$p.log | tail -3
done
echo REFRESH-DONE

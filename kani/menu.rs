// Mapping from symbolic selectors to concrete Candid types. include!d by the
// in-crate harnesses (as crate::types::*) and by the replay tooling, so the two
// cannot drift. `TypeInner`/`Type` must be in scope at the include site.

/// Primitive wire/expected types by selector. 0..=16
pub const N_PRIM: u8 = 17;
pub fn prim(sel: u8) -> Type {
    prim_inner(sel).into()
}
pub fn prim_inner(sel: u8) -> TypeInner {
    match sel {
        0 => TypeInner::Null,
        1 => TypeInner::Bool,
        2 => TypeInner::Nat,
        3 => TypeInner::Int,
        4 => TypeInner::Nat8,
        5 => TypeInner::Nat16,
        6 => TypeInner::Nat32,
        7 => TypeInner::Nat64,
        8 => TypeInner::Int8,
        9 => TypeInner::Int16,
        10 => TypeInner::Int32,
        11 => TypeInner::Int64,
        12 => TypeInner::Float32,
        13 => TypeInner::Float64,
        14 => TypeInner::Text,
        15 => TypeInner::Reserved,
        16 => TypeInner::Empty,
        _ => TypeInner::Principal,
    }
}
pub fn prim_name(sel: u8) -> &'static str {
    match sel {
        0 => "null", 1 => "bool", 2 => "nat", 3 => "int", 4 => "nat8", 5 => "nat16", 6 => "nat32",
        7 => "nat64", 8 => "int8", 9 => "int16", 10 => "int32", 11 => "int64", 12 => "float32",
        13 => "float64", 14 => "text", 15 => "reserved", 16 => "empty", _ => "principal",
    }
}

/// Case split over the primitive menu: expands `$body` once per primitive type
/// with `$t` bound to a *concrete* `Type`, so that CBMC's constant propagation
/// resolves every `match` on the type tag inside the decoder (a symbolic tag
/// makes symex explore all 25 constructor arms at every comparison; measured
/// >10 min vs seconds). The selector `$w` stays symbolic: all arms are in one query.
macro_rules! for_prim {
    ($w:expr, $t:ident => $body:block) => {
        match $w {
            0 => { let $t: Type = TypeInner::Null.into(); $body }
            1 => { let $t: Type = TypeInner::Bool.into(); $body }
            2 => { let $t: Type = TypeInner::Nat.into(); $body }
            3 => { let $t: Type = TypeInner::Int.into(); $body }
            4 => { let $t: Type = TypeInner::Nat8.into(); $body }
            5 => { let $t: Type = TypeInner::Nat16.into(); $body }
            6 => { let $t: Type = TypeInner::Nat32.into(); $body }
            7 => { let $t: Type = TypeInner::Nat64.into(); $body }
            8 => { let $t: Type = TypeInner::Int8.into(); $body }
            9 => { let $t: Type = TypeInner::Int16.into(); $body }
            10 => { let $t: Type = TypeInner::Int32.into(); $body }
            11 => { let $t: Type = TypeInner::Int64.into(); $body }
            12 => { let $t: Type = TypeInner::Float32.into(); $body }
            13 => { let $t: Type = TypeInner::Float64.into(); $body }
            14 => { let $t: Type = TypeInner::Text.into(); $body }
            15 => { let $t: Type = TypeInner::Reserved.into(); $body }
            _ => { let $t: Type = TypeInner::Empty.into(); $body }
        }
    };
}

// Mapping from symbolic selectors to concrete Candid types. include!d by the
// in-crate harnesses (as crate::types::*) and by the replay tooling, so the two
// cannot drift. `TypeInner`/`Type` must be in scope at the include site.

/// Primitive wire/expected types by selector. 0..=16
pub const N_PRIM: u8 = 17;
pub fn prim(sel: u8) -> Type {
    prim_inner(sel).into()
}
pub fn prim_inner(sel: u8) -> TypeInner {
    match sel {
        0 => TypeInner::Null,
        1 => TypeInner::Bool,
        2 => TypeInner::Nat,
        3 => TypeInner::Int,
        4 => TypeInner::Nat8,
        5 => TypeInner::Nat16,
        6 => TypeInner::Nat32,
        7 => TypeInner::Nat64,
        8 => TypeInner::Int8,
        9 => TypeInner::Int16,
        10 => TypeInner::Int32,
        11 => TypeInner::Int64,
        12 => TypeInner::Float32,
        13 => TypeInner::Float64,
        14 => TypeInner::Text,
        15 => TypeInner::Reserved,
        16 => TypeInner::Empty,
        _ => TypeInner::Principal,
    }
}
pub fn prim_name(sel: u8) -> &'static str {
    match sel {
        0 => "null", 1 => "bool", 2 => "nat", 3 => "int", 4 => "nat8", 5 => "nat16", 6 => "nat32",
        7 => "nat64", 8 => "int8", 9 => "int16", 10 => "int32", 11 => "int64", 12 => "float32",
        13 => "float64", 14 => "text", 15 => "reserved", 16 => "empty", _ => "principal",
    }
}

/// Case split over the primitive menu: expands `$body` once per primitive type
/// with `$t` bound to a *concrete* `Type`, so that CBMC's constant propagation
/// resolves every `match` on the type tag inside the decoder (a symbolic tag
/// makes symex explore all 25 constructor arms at every comparison; measured
/// >10 min vs seconds). The selector `$w` stays symbolic: all arms are in one query.
macro_rules! for_prim {
    ($w:expr, $t:ident => $body:block) => {
        match $w {
            0 => { let $t: Type = TypeInner::Null.into(); $body }
            1 => { let $t: Type = TypeInner::Bool.into(); $body }
            2 => { let $t: Type = TypeInner::Nat.into(); $body }
            3 => { let $t: Type = TypeInner::Int.into(); $body }
            4 => { let $t: Type = TypeInner::Nat8.into(); $body }
            5 => { let $t: Type = TypeInner::Nat16.into(); $body }
            6 => { let $t: Type = TypeInner::Nat32.into(); $body }
            7 => { let $t: Type = TypeInner::Nat64.into(); $body }
            8 => { let $t: Type = TypeInner::Int8.into(); $body }
            9 => { let $t: Type = TypeInner::Int16.into(); $body }
            10 => { let $t: Type = TypeInner::Int32.into(); $body }
            11 => { let $t: Type = TypeInner::Int64.into(); $body }
            12 => { let $t: Type = TypeInner::Float32.into(); $body }
            13 => { let $t: Type = TypeInner::Float64.into(); $body }
            14 => { let $t: Type = TypeInner::Text.into(); $body }
            15 => { let $t: Type = TypeInner::Reserved.into(); $body }
            _ => { let $t: Type = TypeInner::Empty.into(); $body }
        }
    };
}

/// Size in bytes of a well-formed value of primitive type `sel` at the start of
/// `buf[..len]`, or None if the bytes are malformed for that type (truncated, bad
/// bool, bad UTF-8, unterminated LEB128, `empty`). Written from spec/Candid.md `M`.
pub fn ref_prim_size(sel: u8, buf: &[u8], len: usize) -> Option<usize> {
    let fixed = |w: usize| if len >= w { Some(w) } else { None };
    match sel {
        0 | 15 => Some(0),
        1 => {
            if len >= 1 && buf[0] <= 1 { Some(1) } else { None }
        }
        2 | 3 => {
            // (S)LEB128 of any length: terminator inside the buffer
            let mut i = 0;
            while i < len {
                if buf[i] & 0x80 == 0 {
                    return Some(i + 1);
                }
                i += 1;
            }
            None
        }
        4 | 8 => fixed(1),
        5 | 9 => fixed(2),
        6 | 10 | 12 => fixed(4),
        7 | 11 | 13 => fixed(8),
        14 => {
            // LEB128 length (must fit the remaining input), then UTF-8
            let mut v: u64 = 0;
            let mut i = 0;
            let mut end = None;
            while i < len {
                let g = (buf[i] & 0x7f) as u64;
                if i < 9 {
                    v |= g << (7 * i);
                } else if g != 0 {
                    return None; // larger than any input here
                }
                if buf[i] & 0x80 == 0 {
                    end = Some(i + 1);
                    break;
                }
                i += 1;
            }
            let end = end?;
            if v > (len - end) as u64 {
                return None;
            }
            let n = v as usize;
            if core::str::from_utf8(&buf[end..end + n]).is_ok() { Some(end + n) } else { None }
        }
        _ => None, // empty has no values
    }
}

// C15: the field-name hash (two real copies + the spec formula) and Label
// equality / ordering / hashing consistency.
use candid::types::Label;

/// Spec: hash(id) = ( Sum_{i=0..k} utf8(id)[i] * 223^(k-i) ) mod 2^32, as a Horner fold
/// in u64 with an explicit reduction, so a width/wrapping mistake in a copy is visible.
pub fn spec_hash(b: &[u8], len: usize) -> u32 {
    let mut s: u64 = 0;
    let mut i = 0;
    while i < len {
        s = (s * 223 + b[i] as u64) % (1u64 << 32);
        i += 1;
    }
    s as u32
}

macro_rules! hash_h {
    ($name:ident, $n:expr, $unw:expr) => {
        harness! {
            #[kani::unwind($unw)]
            fn $name() {
                const N: usize = $n;
                let buf: [u8; N] = kani::any();
                let len: usize = kani::any();
                kani::assume(len <= N);
                let s = match std::str::from_utf8(&buf[..len]) {
                    Ok(s) => s,
                    Err(_) => return,
                };
                let h_lib = candid::idl_hash(s);
                let h_derive = crate::derive_slice::idl_hash(s);
                let h_spec = spec_hash(&buf, len);
                assert!(h_lib == h_spec, "candid::idl_hash differs from the specification's hash");
                assert!(h_derive == h_spec, "candid_derive's idl_hash differs from the specification's hash");
                // the label built from the name is identified with the numeric id
                kani::cover!(len == N && h_spec > 0x8000_0000, "full-length name with a large hash");
                kani::cover!(len >= 2 && buf[0] >= 0xc2, "non-ASCII name");
            }
        }
    };
}
hash_h!(c15_hash_two_copies_le5, 5, 7);
hash_h!(c15_hash_two_copies_le8, 8, 10);

/// Label of a *concrete* kind per harness (symbolic-length String construction runs CBMC out
/// of memory): I = Id(any u32), U = Unnamed(any u32), N1/N2/N3 = Named(1/2/3 symbolic ASCII bytes).
macro_rules! mk_label {
    (I) => { Label::Id(kani::any()) };
    (U) => { Label::Unnamed(kani::any()) };
    (N1) => {{ let c: [u8; 1] = kani::any(); kani::assume(c[0] < 0x80); Label::Named(String::from_utf8(vec![c[0]]).unwrap()) }};
    (N2) => {{ let c: [u8; 2] = kani::any(); kani::assume(c[0] < 0x80 && c[1] < 0x80); Label::Named(String::from_utf8(vec![c[0], c[1]]).unwrap()) }};
    (N3) => {{ let c: [u8; 3] = kani::any(); kani::assume(c[0] < 0x80 && c[1] < 0x80 && c[2] < 0x80); Label::Named(String::from_utf8(vec![c[0], c[1], c[2]]).unwrap()) }};
}

struct Rec(u64, u32);
impl std::hash::Hasher for Rec {
    fn finish(&self) -> u64 {
        self.0
    }
    fn write(&mut self, bytes: &[u8]) {
        let mut i = 0;
        while i < bytes.len() {
            self.0 = self.0.wrapping_mul(257).wrapping_add(bytes[i] as u64);
            i += 1;
        }
        self.1 += 1;
    }
}
fn hash_of(l: &Label) -> u64 {
    use std::hash::{Hash, Hasher};
    let mut h = Rec(0, 0);
    l.hash(&mut h);
    h.finish()
}

macro_rules! label_pair_h {
    ($name:ident, $ka:ident, $kb:ident) => {
        harness! {
            #[kani::unwind(6)]
            fn $name() {
                let a = mk_label!($ka);
                let b = mk_label!($kb);
                let (ia, ib) = (a.get_id(), b.get_id());
                assert!((a == b) == (ia == ib), "Label equality is not equality of numeric ids");
                assert!(a.cmp(&b) == ia.cmp(&ib), "Label ordering is not the ordering of numeric ids");
                assert!(a.partial_cmp(&b) == Some(ia.cmp(&ib)), "partial_cmp disagrees with cmp");
                if a == b {
                    assert!(hash_of(&a) == hash_of(&b), "equal labels hash differently");
                }
                if let Label::Named(s) = &a {
                    assert!(ia == spec_hash(s.as_bytes(), s.len()), "a named label's id is not the spec hash of its name");
                    assert!(Label::Id(ia) == a, "Id(hash(name)) is not identified with Named(name)");
                }
                if let Label::Named(s) = &b {
                    assert!(ib == spec_hash(s.as_bytes(), s.len()), "a named label's id is not the spec hash of its name");
                }
                kani::cover!(a == b, "two labels with equal ids");
                kani::cover!(a < b, "ordered by id");
                std::mem::forget(a);
                std::mem::forget(b);
            }
        }
    };
}
label_pair_h!(c15_label_n2_id, N2, I);
label_pair_h!(c15_label_n3_unnamed, N3, U);
label_pair_h!(c15_label_n2_n2, N2, N2);
label_pair_h!(c15_label_n1_n2, N1, N2);
label_pair_h!(c15_label_id_unnamed, I, U);

// check_unique on a sequence of 3 labels sorted by id: Err iff two neighbours have equal ids
macro_rules! unique_h {
    ($name:ident, $k0:ident, $k1:ident, $k2:ident) => {
        harness! {
            #[kani::unwind(6)]
            fn $name() {
                let ls = [mk_label!($k0), mk_label!($k1), mk_label!($k2)];
                let ids = [ls[0].get_id(), ls[1].get_id(), ls[2].get_id()];
                kani::assume(ids[0] <= ids[1] && ids[1] <= ids[2]);
                let r = candid::utils::check_unique(ls.iter());
                let dup = ids[0] == ids[1] || ids[1] == ids[2];
                assert!(r.is_err() == dup, "check_unique does not reject exactly the sequences with equal ids");
                kani::cover!(dup, "collision rejected");
                kani::cover!(!dup, "unique sequence accepted");
                std::mem::forget(r);
                std::mem::forget(ls);
            }
        }
    };
}
unique_h!(c15_check_unique_n2_id_u, N2, I, U);
unique_h!(c15_check_unique_id_n1_n2, I, N1, N2);

// Two *different* names with the same id (possible from 5 bytes on, when the fold wraps):
// equality, ordering and hashing must still go through the id. "lraubw" and "qdyhta" both
// hash to 313518415. The second name keeps `$fixed` leading bytes of "qdyhta" and the rest
// symbolic, so the solver has to find the colliding spelling itself.
macro_rules! collision_h {
    ($name:ident, $fixed:expr, $unw:expr) => {
        harness! {
            #[kani::unwind($unw)]
            fn $name() {
                let a = Label::Named(String::from("lraubw"));
                let known = *b"qdyhta";
                let c: [u8; 6] = kani::any();
                let mut i = 0;
                while i < 6 {
                    kani::assume(c[i] >= b'a' && c[i] <= b'z');
                    if i < $fixed { kani::assume(c[i] == known[i]); }
                    i += 1;
                }
                let b = Label::Named(String::from_utf8(vec![c[0], c[1], c[2], c[3], c[4], c[5]]).unwrap());
                let (ia, ib) = (a.get_id(), b.get_id());
                assert!(ia == 313518415, "hash of a known name changed");
                assert!((a == b) == (ia == ib), "Label equality is not equality of numeric ids (names that collide)");
                assert!(a.cmp(&b) == ia.cmp(&ib), "Label ordering is not the ordering of numeric ids");
                if ia == ib {
                    assert!(hash_of(&a) == hash_of(&b), "equal labels hash differently");
                    // a sorted sequence containing both must be rejected as a collision
                    let ls = [a.clone(), b.clone()];
                    assert!(candid::utils::check_unique(ls.iter()).is_err(), "two names with the same id were not reported as a collision");
                    std::mem::forget(ls);
                }
                kani::cover!(ia == ib && c[5] != b'w', "a different name with the same id found");
                std::mem::forget(a);
                std::mem::forget(b);
            }
        }
    };
}
collision_h!(c15_label_collision_suffix2, 4, 9);
collision_h!(c15_label_collision_suffix4, 2, 9);

// Reference (S)LEB128 semantics written from spec/Candid.md, with explicit
// wide arithmetic so that nothing in the oracle can wrap silently.

/// Result of reading one LEB128 string from `buf[..len]`.
#[derive(Clone, Copy, Debug, PartialEq, Eq)]
pub enum Leb<T> {
    /// no byte without continuation bit inside the buffer
    Unterminated,
    /// terminated at index `end` (exclusive), mathematical value does not fit T
    OutOfRange { end: usize },
    /// terminated at index `end` (exclusive) with value `v`
    Val { v: T, end: usize },
}

/// Unsigned LEB128 → u128. Value = Σ (bᵢ & 0x7f)·2^{7i}; out of range iff any
/// set bit lands at position ≥ 128.
pub fn ref_leb_u128(buf: &[u8], len: usize) -> Leb<u128> {
    let mut v: u128 = 0;
    let mut overflow = false;
    let mut i = 0usize;
    while i < len {
        let b = buf[i];
        let g = (b & 0x7f) as u128;
        let sh = 7 * i;
        if g != 0 {
            if sh >= 128 {
                overflow = true;
            } else {
                // bits of g that would land at >= 128
                let room = 128 - sh; // 1..=128
                if room < 7 && (g >> room) != 0 {
                    overflow = true;
                }
                v |= g << sh; // sh < 128: no shift overflow; high bits drop
            }
        }
        if b & 0x80 == 0 {
            return if overflow {
                Leb::OutOfRange { end: i + 1 }
            } else {
                Leb::Val { v, end: i + 1 }
            };
        }
        i += 1;
    }
    Leb::Unterminated
}

/// Signed LEB128 → i128. Two's complement: value = Σ gᵢ·2^{7i} − [sign]·2^{7n}.
/// In range iff all bits at positions ≥ 127 (incl. the implied sign extension)
/// equal bit 127 … i.e. the 7n-bit two's complement number fits 128 bits.
pub fn ref_leb_i128(buf: &[u8], len: usize) -> Leb<i128> {
    // find terminator
    let mut n = 0usize;
    let mut found = false;
    while n < len {
        if buf[n] & 0x80 == 0 {
            found = true;
            break;
        }
        n += 1;
    }
    if !found {
        return Leb::Unterminated;
    }
    let groups = n + 1;
    let sign = (buf[n] & 0x40) != 0;
    // assemble low 128 bits, sign-extended when 7*groups < 128
    let mut u: u128 = 0;
    let mut i = 0usize;
    while i < groups {
        let g = (buf[i] & 0x7f) as u128;
        let sh = 7 * i;
        if sh < 128 {
            u |= g << sh;
        }
        i += 1;
    }
    let width = 7 * groups;
    if width < 128 && sign {
        u |= !0u128 << width;
    }
    let v = u as i128;
    // range check: every bit at position p in 128..width must equal the sign of
    // the whole number (bit width-1), and bit 127 must equal it too.
    let mut ok = true;
    if width > 128 {
        let neg = sign;
        if (v < 0) != neg {
            ok = false;
        }
        let mut i = 18usize; // group 18 covers bits 126..132
        while i < groups {
            let g = buf[i] & 0x7f;
            if i == 18 {
                // bits 128..132 are g>>2
                if (g >> 2) != (if neg { 0x1f } else { 0 }) {
                    ok = false;
                }
            } else if g != (if neg { 0x7f } else { 0 }) {
                ok = false;
            }
            i += 1;
        }
    }
    if ok {
        Leb::Val { v, end: groups }
    } else {
        Leb::OutOfRange { end: groups }
    }
}

/// Minimal unsigned LEB128 of v into out; returns length.
pub fn ref_enc_u128(mut v: u128, out: &mut [u8; 24]) -> usize {
    let mut n = 0usize;
    loop {
        let g = (v % 128) as u8;
        v /= 128;
        if v == 0 {
            out[n] = g;
            return n + 1;
        }
        out[n] = g | 0x80;
        n += 1;
    }
}

/// Minimal signed LEB128 of v into out; returns length.
pub fn ref_enc_i128(mut v: i128, out: &mut [u8; 24]) -> usize {
    let mut n = 0usize;
    loop {
        let g = (v.rem_euclid(128)) as u8;
        v = v.div_euclid(128);
        let done = (v == 0 && g & 0x40 == 0) || (v == -1 && g & 0x40 != 0);
        if done {
            out[n] = g;
            return n + 1;
        }
        out[n] = g | 0x80;
        n += 1;
    }
}

#[cfg(test)]
mod tests {
    use super::*;
    #[test]
    fn oracle_matches_known() {
        let mut o = [0u8; 24];
        let n = ref_enc_u128(624485, &mut o);
        assert_eq!(&o[..n], &[0xe5, 0x8e, 0x26]);
        let n = ref_enc_i128(-123456, &mut o);
        assert_eq!(&o[..n], &[0xc0, 0xbb, 0x78]);
        assert_eq!(ref_leb_u128(&[0xe5, 0x8e, 0x26], 3), Leb::Val { v: 624485, end: 3 });
        assert_eq!(ref_leb_i128(&[0xc0, 0xbb, 0x78], 3), Leb::Val { v: -123456, end: 3 });
        assert_eq!(ref_leb_i128(&[0x7f], 1), Leb::Val { v: -1, end: 1 });
        assert_eq!(ref_leb_i128(&[0xff, 0x7f], 2), Leb::Val { v: -1, end: 2 });
        assert_eq!(ref_leb_u128(&[0x80], 1), Leb::Unterminated);
        // 2^128: 18 continuation zeros then 0x04 at shift 126 -> bit 128
        let mut b = [0x80u8; 19];
        b[18] = 0x04;
        assert_eq!(ref_leb_u128(&b, 19), Leb::OutOfRange { end: 19 });
        b[18] = 0x02;
        assert_eq!(ref_leb_u128(&b, 19), Leb::Val { v: 1u128 << 127, end: 19 });
        // int 2^127 out of range; -2^127 in range
        b[18] = 0x02; // bits: 127 set, sign bit(0x40)=0 -> +2^127
        assert_eq!(ref_leb_i128(&b, 19), Leb::OutOfRange { end: 19 });
        b[18] = 0x7e; // bits 127..132 set, sign -> -2^127
        assert_eq!(ref_leb_i128(&b, 19), Leb::Val { v: i128::MIN, end: 19 });
        // padded zero, 20 bytes
        let mut z = [0x80u8; 20];
        z[19] = 0;
        assert_eq!(ref_leb_u128(&z, 20), Leb::Val { v: 0, end: 20 });
        assert_eq!(ref_leb_i128(&z, 20), Leb::Val { v: 0, end: 20 });
        let mut m = [0xffu8; 20];
        m[19] = 0x7f;
        assert_eq!(ref_leb_i128(&m, 20), Leb::Val { v: -1, end: 20 });
        for v in [0i128, 1, -1, 63, 64, -64, -65, i128::MAX, i128::MIN, 1 << 100, -(1 << 100)] {
            let n = ref_enc_i128(v, &mut o);
            assert_eq!(ref_leb_i128(&o, n), Leb::Val { v, end: n });
        }
        for v in [0u128, 1, 127, 128, u128::MAX, 1 << 100] {
            let n = ref_enc_u128(v, &mut o);
            assert_eq!(ref_leb_u128(&o, n), Leb::Val { v, end: n });
        }
    }
}

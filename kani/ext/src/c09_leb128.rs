macro_rules! len_mode {
    (symbolic, $n:expr) => {{ let l: usize = kani::any(); kani::assume(l <= $n); l }};
    (fixed, $n:expr) => { $n };
}
// C09: 128-bit (S)LEB128 codecs in candid::types::leb128, all byte strings up to N.
use crate::oracle::*;
use candid::types::leb128::{decode_int, decode_nat, encode_int, encode_nat};

macro_rules! dec_nat_h {
    ($name:ident, $n:expr, $unw:expr) => { dec_nat_h!($name, $n, $unw, symbolic); };
    ($name:ident, $n:expr, $unw:expr, $mode:ident) => {
        harness! {
            #[kani::unwind($unw)]
            fn $name() {
                const N: usize = $n;
                let buf: [u8; N] = kani::any();
                let len: usize = len_mode!($mode, N);
                let mut rd: &[u8] = &buf[..len];
                let r = decode_nat(&mut rd);
                let consumed = len - rd.len();
                let o = ref_leb_u128(&buf, len);
                match o {
                    Leb::Unterminated => {
                        assert!(r.is_err(), "unterminated LEB128 must be an error");
                    }
                    Leb::OutOfRange { .. } => {
                        assert!(r.is_err(), "nat >= 2^128 must be rejected by the u128 decoder");
                    }
                    Leb::Val { v, end } => {
                        match &r {
                            Ok(x) => {
                                assert!(*x == v, "decode_nat value differs from LEB128 value");
                                assert!(consumed == end, "decode_nat consumed wrong number of bytes");
                            }
                            Err(_) => assert!(false, "terminated in-range LEB128 must decode"),
                        }
                    }
                }
                kani::cover!(matches!(o, Leb::Unterminated) && len > 0, "unterminated reached");
                kani::cover!(N < 19 || matches!(o, Leb::OutOfRange { end: 19 }), "minimal out-of-range reached");
                kani::cover!(matches!(o, Leb::Val { v, end } if (N < 19 && v > 127) || (end == 19 && v >= (1u128 << 127))) && r.is_ok(), "large in-range value decoded");
                kani::cover!(matches!(o, Leb::Val { end, .. } if (N < 20 && end > 1) || end > 19) && r.is_ok(), "padded / long encoding decoded");
                std::mem::forget(r);
            }
        }
    };
}
macro_rules! dec_int_h {
    ($name:ident, $n:expr, $unw:expr) => { dec_int_h!($name, $n, $unw, symbolic); };
    ($name:ident, $n:expr, $unw:expr, $mode:ident) => {
        harness! {
            #[kani::unwind($unw)]
            fn $name() {
                const N: usize = $n;
                let buf: [u8; N] = kani::any();
                let len: usize = len_mode!($mode, N);
                let mut rd: &[u8] = &buf[..len];
                let r = decode_int(&mut rd);
                let consumed = len - rd.len();
                let o = ref_leb_i128(&buf, len);
                match o {
                    Leb::Unterminated => {
                        assert!(r.is_err(), "unterminated SLEB128 must be an error");
                    }
                    Leb::OutOfRange { .. } => {
                        assert!(r.is_err(), "int outside i128 must be rejected by the i128 decoder");
                    }
                    Leb::Val { v, end } => {
                        match &r {
                            Ok(x) => {
                                assert!(*x == v, "decode_int value differs from SLEB128 value");
                                assert!(consumed == end, "decode_int consumed wrong number of bytes");
                            }
                            Err(_) => assert!(false, "terminated in-range SLEB128 must decode"),
                        }
                    }
                }
                kani::cover!(matches!(o, Leb::Unterminated) && len > 0, "unterminated reached");
                kani::cover!(N < 19 || matches!(o, Leb::OutOfRange { end: 19 }), "minimal out-of-range reached");
                kani::cover!(matches!(o, Leb::Val { v, end } if (N < 19 && v < -64) || (end == 19 && v == i128::MIN)) && r.is_ok(), "large negative value decoded");
                kani::cover!(matches!(o, Leb::Val { v, end } if v < 0 && ((N < 20 && end > 1) || end > 19)) && r.is_ok(), "padded / long negative decoded");
                std::mem::forget(r);
            }
        }
    };
}

// fixed length N: every string whose first terminator lies within N bytes, plus the
// unterminated strings of length N (the decoder stops at the first terminator, so
// shorter strings are prefixes). Symbolic length only for small N (EOF handling):
// measured 8 s (fixed 20) vs 363 s (symbolic <= 20) for the same coverage.
dec_nat_h!(c09_dec_nat128_eq20, 20, 22, fixed);
dec_int_h!(c09_dec_int128_eq20, 20, 22, fixed);
dec_nat_h!(c09_dec_nat128_le6, 6, 8);
dec_int_h!(c09_dec_int128_le6, 6, 8);
dec_nat_h!(c09_dec_nat128_eq28, 28, 30, fixed);
dec_int_h!(c09_dec_int128_eq28, 28, 30, fixed);
dec_nat_h!(c09_dec_nat128_eq40, 40, 42, fixed);
dec_int_h!(c09_dec_int128_eq40, 40, 42, fixed);
dec_nat_h!(c09_dec_nat128_le20, 20, 22);
dec_int_h!(c09_dec_int128_le20, 20, 22);

struct Sink {
    buf: [u8; 24],
    n: usize,
}
impl std::io::Write for Sink {
    fn write(&mut self, b: &[u8]) -> std::io::Result<usize> {
        let mut i = 0;
        while i < b.len() {
            if self.n >= 24 {
                return Err(std::io::ErrorKind::WriteZero.into());
            }
            self.buf[self.n] = b[i];
            self.n += 1;
            i += 1;
        }
        Ok(b.len())
    }
    fn flush(&mut self) -> std::io::Result<()> {
        Ok(())
    }
}

harness! {
    #[kani::unwind(21)]
    fn c09_enc_nat128() {
        let v: u128 = kani::any();
        let mut s = Sink { buf: [0; 24], n: 0 };
        let r = encode_nat(&mut s, v);
        assert!(r.is_ok());
        let mut o = [0u8; 24];
        let n = ref_enc_u128(v, &mut o);
        assert!(s.n == n, "encode_nat length is not the minimal LEB128 length");
        assert!(n <= 19);
        let mut i = 0;
        while i < 19 {
            if i < n {
                assert!(s.buf[i] == o[i], "encode_nat byte differs from minimal LEB128");
            }
            i += 1;
        }
        kani::cover!(n == 19, "19-byte encoding reached");
        kani::cover!(n == 1, "1-byte encoding reached");
        std::mem::forget(r);
    }
}
harness! {
    #[kani::unwind(21)]
    fn c09_enc_int128() {
        let v: i128 = kani::any();
        let mut s = Sink { buf: [0; 24], n: 0 };
        let r = encode_int(&mut s, v);
        assert!(r.is_ok());
        let mut o = [0u8; 24];
        let n = ref_enc_i128(v, &mut o);
        assert!(s.n == n, "encode_int length is not the minimal SLEB128 length");
        assert!(n <= 19);
        let mut i = 0;
        while i < 19 {
            if i < n {
                assert!(s.buf[i] == o[i], "encode_int byte differs from minimal SLEB128");
            }
            i += 1;
        }
        kani::cover!(n == 19 && v < 0, "19-byte negative reached");
        kani::cover!(n == 1, "1-byte encoding reached");
        std::mem::forget(r);
    }
}

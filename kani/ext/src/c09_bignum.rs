// C09, big-number side: what candid::Nat / candid::Int do on their side of the
// num-bigint boundary, for every byte string / value of a concrete length per harness.
// num-bigint itself is trusted: its constructors/serialisers are replaced by recording or
// contract-returning stubs (real BigUint arithmetic on symbolic digits runs CBMC out of
// memory at 20-30 GB).
use crate::oracle::*;
use candid::{Int, Nat};
use num_bigint::{BigInt, BigUint};

// ---------------- recording stubs (decode direction)
pub static mut REC_KIND: u8 = 0; // 0 nothing, 1 from_u64/from_i64, 2 from_radix_le
pub static mut REC_SMALL: i128 = 0;
pub static mut REC_DIGITS: [u8; 24] = [0; 24];
pub static mut REC_NDIG: usize = 0;
pub static mut REC_RADIX: u32 = 0;
pub static mut REC_SHL: usize = 0;
pub static mut REC_SUB: bool = false;

pub fn rec_from_u64(v: u64) -> BigUint {
    unsafe {
        REC_KIND = 1;
        REC_SMALL = v as i128;
    }
    BigUint::default()
}
pub fn rec_from_i64(v: i64) -> BigInt {
    unsafe {
        REC_KIND = 1;
        REC_SMALL = v as i128;
    }
    BigInt::default()
}
pub fn rec_from_radix_le(d: &[u8], radix: u32) -> Option<BigUint> {
    unsafe {
        REC_KIND = 2;
        REC_RADIX = radix;
        REC_NDIG = d.len();
        let mut i = 0;
        while i < d.len() && i < 24 {
            REC_DIGITS[i] = d[i];
            i += 1;
        }
    }
    Some(BigUint::default())
}
pub fn rec_int_from_biguint(_a: BigUint) -> BigInt {
    BigInt::default()
}
pub fn rec_int_from_i32(v: i32) -> BigInt {
    // only used for BigInt::from(1) in the two's-complement correction
    assert!(v == 1);
    BigInt::default()
}
pub fn rec_shl(_a: BigInt, b: usize) -> BigInt {
    unsafe { REC_SHL = b };
    BigInt::default()
}
pub fn rec_sub_assign(_a: &mut BigInt, _b: BigInt) {
    unsafe { REC_SUB = true };
}

/// value of the recorded digits as u128 (n <= 18 digits => < 2^126)
fn rec_digits_value() -> u128 {
    let mut v: u128 = 0;
    let mut i = 0;
    unsafe {
        while i < REC_NDIG && i < 18 {
            v |= (REC_DIGITS[i] as u128) << (7 * i);
            i += 1;
        }
    }
    v
}

macro_rules! nat_dec_h {
    ($name:ident, $n:expr, $unw:expr) => {
        harness! {
            #[kani::unwind($unw)]
            #[kani::stub(<num_bigint::BigUint as std::convert::From<u64>>::from, crate::c09_bignum::rec_from_u64)]
            #[kani::stub(num_bigint::BigUint::from_radix_le, crate::c09_bignum::rec_from_radix_le)]
            fn $name() {
                const N: usize = $n;
                let mut buf: [u8; N] = kani::any();
                // exactly N bytes long: continuation on all but the last
                let mut i = 0;
                while i < N {
                    if i + 1 < N { buf[i] |= 0x80; } else { buf[i] &= 0x7f; }
                    i += 1;
                }
                let mut rd: &[u8] = &buf[..];
                let r = Nat::decode(&mut rd);
                assert!(r.is_ok(), "terminated LEB128 must decode as nat");
                assert!(rd.len() == 0, "Nat::decode did not consume exactly the string");
                let expect = match ref_leb_u128(&buf, N) { Leb::Val { v, .. } => v, _ => { assert!(false); 0 } };
                unsafe {
                    assert!(REC_KIND != 0, "no value was handed to num-bigint");
                    if REC_KIND == 1 {
                        assert!(REC_SMALL as u128 == expect, "Nat::decode: 64-bit path value differs from the LEB128 value");
                    } else {
                        assert!(REC_RADIX == 128, "unexpected radix");
                        let mut ok = true;
                        let mut k = 0;
                        while k < REC_NDIG && k < 24 { if REC_DIGITS[k] >= 128 { ok = false; } k += 1; }
                        assert!(ok, "digit out of range handed to from_radix_le");
                        assert!(rec_digits_value() == expect, "Nat::decode: bignum path value differs from the LEB128 value");
                    }
                    kani::cover!(REC_KIND == 1, "64-bit path taken");
                    kani::cover!(N < 10 || REC_KIND == 2, "bignum path taken");
                }
                std::mem::forget(r);
            }
        }
    };
}
nat_dec_h!(c09_nat_dec_len1, 1, 4);
nat_dec_h!(c09_nat_dec_len5, 5, 8);
nat_dec_h!(c09_nat_dec_len9, 9, 12);
nat_dec_h!(c09_nat_dec_len10, 10, 13);
nat_dec_h!(c09_nat_dec_len11, 11, 14);
nat_dec_h!(c09_nat_dec_len14, 14, 17);
nat_dec_h!(c09_nat_dec_len18, 18, 26);

macro_rules! int_dec_h {
    ($name:ident, $n:expr, $unw:expr) => {
        harness! {
            #[kani::unwind($unw)]
            #[kani::stub(<num_bigint::BigInt as std::convert::From<i64>>::from, crate::c09_bignum::rec_from_i64)]
            #[kani::stub(<num_bigint::BigInt as std::convert::From<i32>>::from, crate::c09_bignum::rec_int_from_i32)]
            #[kani::stub(<num_bigint::BigInt as std::convert::From<num_bigint::BigUint>>::from, crate::c09_bignum::rec_int_from_biguint)]
            #[kani::stub(num_bigint::BigUint::from_radix_le, crate::c09_bignum::rec_from_radix_le)]
            #[kani::stub(<num_bigint::BigInt as std::ops::Shl<usize>>::shl, crate::c09_bignum::rec_shl)]
            #[kani::stub(<num_bigint::BigInt as std::ops::SubAssign<num_bigint::BigInt>>::sub_assign, crate::c09_bignum::rec_sub_assign)]
            fn $name() {
                const N: usize = $n;
                let mut buf: [u8; N] = kani::any();
                let mut i = 0;
                while i < N {
                    if i + 1 < N { buf[i] |= 0x80; } else { buf[i] &= 0x7f; }
                    i += 1;
                }
                let mut rd: &[u8] = &buf[..];
                let r = Int::decode(&mut rd);
                assert!(r.is_ok(), "terminated SLEB128 must decode as int");
                assert!(rd.len() == 0, "Int::decode did not consume exactly the string");
                let expect = match ref_leb_i128(&buf, N) { Leb::Val { v, .. } => v, _ => { assert!(false); 0 } };
                unsafe {
                    assert!(REC_KIND != 0, "no value was handed to num-bigint");
                    if REC_KIND == 1 {
                        assert!(REC_SMALL == expect, "Int::decode: 64-bit path value differs from the SLEB128 value");
                    } else {
                        assert!(REC_RADIX == 128, "unexpected radix");
                        // magnitude handed over, minus 2^(7n) iff the sign bit of the last group is set
                        let mag = rec_digits_value();
                        let neg = buf[N - 1] & 0x40 != 0;
                        assert!(REC_NDIG == N, "not all groups were handed to num-bigint");
                        assert!(REC_SUB == neg, "two's-complement correction applied iff the sign bit is set");
                        if neg {
                            assert!(REC_SHL == 7 * N, "wrong power of two subtracted");
                        }
                        let val: i128 = if neg { mag as i128 - (1i128 << (7 * N)) } else { mag as i128 };
                        assert!(val == expect, "Int::decode: bignum path value differs from the SLEB128 value");
                    }
                    kani::cover!(REC_KIND == 1 && REC_SMALL < 0, "64-bit path, negative");
                    kani::cover!(N < 10 || (REC_KIND == 2 && REC_SUB), "bignum path, negative");
                }
                std::mem::forget(r);
            }
        }
    };
}
int_dec_h!(c09_int_dec_len1, 1, 4);
int_dec_h!(c09_int_dec_len5, 5, 8);
int_dec_h!(c09_int_dec_len9, 9, 12);
int_dec_h!(c09_int_dec_len10, 10, 13);
int_dec_h!(c09_int_dec_len11, 11, 14);
int_dec_h!(c09_int_dec_len14, 14, 17);
int_dec_h!(c09_int_dec_len18, 18, 26);

// ---------------- contract-returning stubs (encode direction)
pub static mut ENC_V: i128 = 0;
pub static mut ENC_UV: u128 = 0;
pub static mut ENC_LEN: usize = 0;
pub fn enc_to_u64_none(_s: &BigUint) -> Option<u64> {
    None
}
pub fn enc_to_i64_none(_s: &BigInt) -> Option<i64> {
    None
}
pub static mut ENC_BYTES: [u8; 24] = [0; 24];
/// contract of BigUint::to_radix_le(128): base-128 digits, least significant first, no leading
/// zero digit. The harness fills ENC_BYTES[..ENC_LEN] from the value it chose.
pub fn enc_to_radix_le(_s: &BigUint, radix: u32) -> Vec<u8> {
    assert!(radix == 128);
    unsafe { ENC_BYTES[..ENC_LEN].to_vec() }
}
/// contract of BigInt::to_signed_bytes_le: minimal two's-complement little-endian bytes
pub fn enc_to_signed_bytes_le(_s: &BigInt) -> Vec<u8> {
    unsafe { ENC_BYTES[..ENC_LEN].to_vec() }
}
pub struct Sink {
    pub buf: [u8; 24],
    pub n: usize,
}
impl std::io::Write for Sink {
    fn write(&mut self, b: &[u8]) -> std::io::Result<usize> {
        let mut i = 0;
        while i < b.len() {
            if self.n >= 24 {
                return Err(std::io::ErrorKind::WriteZero.into());
            }
            self.buf[self.n] = b[i];
            self.n += 1;
            i += 1;
        }
        Ok(b.len())
    }
    fn flush(&mut self) -> std::io::Result<()> {
        Ok(())
    }
}

macro_rules! int_enc_big_h {
    ($name:ident, $nbytes:expr, $unw:expr) => {
        harness! {
            #[kani::unwind($unw)]
            #[kani::stub(<num_bigint::BigInt as num_traits::ToPrimitive>::to_i64, crate::c09_bignum::enc_to_i64_none)]
            #[kani::stub(num_bigint::BigInt::to_signed_bytes_le, crate::c09_bignum::enc_to_signed_bytes_le)]
            fn $name() {
                const NB: usize = $nbytes;
                let v: i128 = kani::any();
                // v needs exactly NB bytes in minimal two's complement: fits NB*8 bits, not (NB-1)*8 bits
                let bits = NB * 8;
                if bits < 128 {
                    kani::assume(v >= -(1i128 << (bits - 1)) && v < (1i128 << (bits - 1)));
                }
                kani::assume(v < -(1i128 << (bits - 9)) || v >= (1i128 << (bits - 9)));
                unsafe {
                    ENC_LEN = NB;
                    let mut k = 0;
                    while k < NB { ENC_BYTES[k] = (v >> (8 * k)) as u8; k += 1; }
                }
                let x = Int(BigInt::default());
                let mut s = Sink { buf: [0; 24], n: 0 };
                let r = x.encode(&mut s);
                assert!(r.is_ok());
                let mut o = [0u8; 24];
                let n = ref_enc_i128(v, &mut o);
                assert!(s.n == n, "Int::encode (big path) length is not the minimal SLEB128 length");
                let mut i = 0;
                while i < (NB * 8 + 6) / 7 {
                    if i < n {
                        assert!(s.buf[i] == o[i], "Int::encode (big path) byte differs from minimal SLEB128");
                    }
                    i += 1;
                }
                kani::cover!(v < 0 && (v as u128).trailing_zeros() as usize >= bits - 10, "negative near a power of two");
                kani::cover!(v > 0, "positive");
                std::mem::forget(r);
                std::mem::forget(x);
            }
        }
    };
}
int_enc_big_h!(c09_int_enc_big9, 9, 14);
int_enc_big_h!(c09_int_enc_big10, 10, 15);
int_enc_big_h!(c09_int_enc_big11, 11, 16);
int_enc_big_h!(c09_int_enc_big12, 12, 17);
int_enc_big_h!(c09_int_enc_big13, 13, 18);
int_enc_big_h!(c09_int_enc_big14, 14, 19);
int_enc_big_h!(c09_int_enc_big15, 15, 21);
int_enc_big_h!(c09_int_enc_big16, 16, 22);

macro_rules! nat_enc_big_h {
    ($name:ident, $ndig:expr, $unw:expr) => {
        harness! {
            #[kani::unwind($unw)]
            #[kani::stub(<num_bigint::BigUint as num_traits::ToPrimitive>::to_u64, crate::c09_bignum::enc_to_u64_none)]
            #[kani::stub(num_bigint::BigUint::to_radix_le, crate::c09_bignum::enc_to_radix_le)]
            fn $name() {
                const ND: usize = $ndig;
                let v: u128 = kani::any();
                // exactly ND base-128 digits
                if ND * 7 < 128 {
                    kani::assume(v < (1u128 << (ND * 7)));
                }
                kani::assume(v >= (1u128 << ((ND - 1) * 7)));
                kani::assume(v > u64::MAX as u128);
                unsafe {
                    ENC_LEN = ND;
                    let mut k = 0;
                    while k < ND { ENC_BYTES[k] = ((v >> (7 * k)) & 0x7f) as u8; k += 1; }
                }
                let x = Nat(BigUint::default());
                let mut s = Sink { buf: [0; 24], n: 0 };
                let r = x.encode(&mut s);
                assert!(r.is_ok());
                let mut o = [0u8; 24];
                let n = ref_enc_u128(v, &mut o);
                assert!(s.n == n, "Nat::encode (big path) length is not the minimal LEB128 length");
                let mut i = 0;
                while i < ND {
                    if i < n {
                        assert!(s.buf[i] == o[i], "Nat::encode (big path) byte differs from minimal LEB128");
                    }
                    i += 1;
                }
                kani::cover!(n == ND, "encoded");
                std::mem::forget(r);
                std::mem::forget(x);
            }
        }
    };
}
nat_enc_big_h!(c09_nat_enc_big10, 10, 13);
nat_enc_big_h!(c09_nat_enc_big11, 11, 14);
nat_enc_big_h!(c09_nat_enc_big14, 14, 17);
nat_enc_big_h!(c09_nat_enc_big19, 19, 22);

use candid::types::{Type, TypeInner};
fn heavy(n: u8) -> u32 {
    let mut s = 0u32;
    let mut i = 0;
    while i < 400 {
        s = s.wrapping_mul(31).wrapping_add(n as u32 + i);
        i += 1;
    }
    s
}
harness! {
    #[kani::unwind(402)]
    fn probe_prune_local() {
        let t: Type = TypeInner::Nat.into();
        let x: u8 = kani::any();
        let mut r = 0;
        if matches!(t.as_ref(), TypeInner::Var(_) | TypeInner::Knot(_)) {
            r = heavy(x);
        }
        kani::cover!(r == 0, "c");
        std::mem::forget(t);
    }
}
struct Holder { a: u64, t: Type, b: Option<usize> }
fn mk(t: Type) -> Holder { Holder { a: 1, t, b: None } }
harness! {
    #[kani::unwind(402)]
    fn probe_prune_struct() {
        let mut h = mk(TypeInner::Nat.into());
        let x: u8 = kani::any();
        let hp = &mut h;
        let mut r = 0;
        if matches!(hp.t.as_ref(), TypeInner::Var(_) | TypeInner::Knot(_)) {
            r = heavy(x);
        }
        kani::cover!(r == 0, "c");
        std::mem::forget(h);
    }
}
harness! {
    #[kani::unwind(402)]
    fn probe_prune_control() {
        let t: Type = TypeInner::Var("x".to_string()).into();
        let x: u8 = kani::any();
        let mut r = 0;
        if matches!(t.as_ref(), TypeInner::Var(_) | TypeInner::Knot(_)) {
            r = heavy(x);
        }
        kani::cover!(r != 0, "c");
        std::mem::forget(t);
    }
}

#[repr(C)]
pub struct FakeRc { strong: std::cell::Cell<usize>, weak: std::cell::Cell<usize>, value: TypeInner }
harness! {
    #[kani::unwind(402)]
    fn probe_prune_fake() {
        let fb = FakeRc { strong: std::cell::Cell::new(1 << 20), weak: std::cell::Cell::new(1), value: TypeInner::Nat };
        let t: Type = Type(unsafe { std::rc::Rc::from_raw(&fb.value as *const TypeInner) });
        let x: u8 = kani::any();
        let mut r = 0;
        if matches!(t.as_ref(), TypeInner::Var(_) | TypeInner::Knot(_)) {
            r = heavy(x);
        }
        kani::cover!(r == 0, "c");
        std::mem::forget(t);
    }
}

// C16 (printing direction and constructors): Principal's Display writes lower-case
// base32(CRC32(bytes) ++ bytes) in dash-separated groups of five; constructors accept
// exactly 0..=29 bytes. Real crc32fast (baseline path) and real data_encoding.
use ic_principal::Principal;
use std::fmt::Write;

/// bitwise CRC-32 (IEEE, reflected, init/xorout 0xffffffff) written from the definition
pub fn ref_crc32(b: &[u8], len: usize) -> u32 {
    let mut crc: u32 = 0xffff_ffff;
    let mut i = 0;
    while i < len {
        crc ^= b[i] as u32;
        let mut k = 0;
        while k < 8 {
            crc = if crc & 1 != 0 { (crc >> 1) ^ 0xedb8_8320 } else { crc >> 1 };
            k += 1;
        }
        i += 1;
    }
    !crc
}

pub struct Sink {
    pub buf: [u8; 80],
    pub n: usize,
}
impl Write for Sink {
    fn write_str(&mut self, s: &str) -> std::fmt::Result {
        let b = s.as_bytes();
        let mut i = 0;
        while i < b.len() {
            if self.n >= 80 {
                return Err(std::fmt::Error);
            }
            self.buf[self.n] = b[i];
            self.n += 1;
            i += 1;
        }
        Ok(())
    }
}

const ALPHA: &[u8; 32] = b"abcdefghijklmnopqrstuvwxyz234567";

/// reference text form: base32 (RFC 4648 alphabet, lower case, no padding) of data,
/// a '-' after every 5 characters but never at the end
pub fn ref_text(data: &[u8], dlen: usize, out: &mut [u8; 80]) -> usize {
    let nchars = (dlen * 8 + 4) / 5;
    let mut n = 0;
    let mut c = 0;
    while c < nchars {
        let bit = c * 5;
        let byte = bit / 8;
        let off = bit % 8;
        let hi = data[byte] as u16;
        let lo = if byte + 1 < dlen { data[byte + 1] as u16 } else { 0 };
        let w = (hi << 8) | lo;
        let v = ((w >> (11 - off)) & 0x1f) as usize;
        if c > 0 && c % 5 == 0 {
            out[n] = b'-';
            n += 1;
        }
        out[n] = ALPHA[v];
        n += 1;
        c += 1;
    }
    n
}

pub fn crc_none(_i: u32, _a: u64) -> Option<crc32fast::Hasher> {
    None
}

macro_rules! crc_h {
    ($name:ident, $n:expr, $unw:expr) => {
        harness! {
            #[kani::unwind($unw)]
            #[kani::stub(crc32fast::Hasher::internal_new_specialized, crate::c16_principal::crc_none)]
            fn $name() {
                const N: usize = $n;
                let b: [u8; N] = kani::any();
                let h = crc32fast::hash(&b);
                assert!(h == ref_crc32(&b, N), "crc32fast (baseline) differs from the bitwise CRC-32 definition");
                kani::cover!(h & 0xff == 0, "crc with a zero low byte reachable");
            }
        }
    };
}
crc_h!(c16_crc_ref_len3, 3, 10);
crc_h!(c16_crc_ref_len6, 6, 10);

macro_rules! display_h {
    ($name:ident, $n:expr, $unw:expr) => {
        harness! {
            #[kani::unwind($unw)]
            #[kani::stub(crc32fast::Hasher::internal_new_specialized, crate::c16_principal::crc_none)]
            fn $name() {
                const N: usize = $n;
                let b: [u8; N] = kani::any();
                let p = Principal::from_slice(&b);
                assert!(p.as_slice().len() == N);
                let mut sink = Sink { buf: [0; 80], n: 0 };
                let r = {
                    let mut f = std::fmt::Formatter::new(&mut sink, std::fmt::FormattingOptions::new());
                    <Principal as std::fmt::Display>::fmt(&p, &mut f)
                };
                assert!(r.is_ok(), "Display failed");
                // reference: crc (big endian) ++ bytes
                let mut data = [0u8; 40];
                let crc = ref_crc32(&b, N);
                data[0] = (crc >> 24) as u8;
                data[1] = (crc >> 16) as u8;
                data[2] = (crc >> 8) as u8;
                data[3] = crc as u8;
                let mut i = 0;
                while i < N {
                    data[4 + i] = b[i];
                    i += 1;
                }
                let mut exp = [0u8; 80];
                let en = ref_text(&data, 4 + N, &mut exp);
                assert!(sink.n == en, "text length differs from base32(crc ++ bytes) in groups of five");
                const L: usize = ((4 + N) * 8 + 4) / 5 + (((4 + N) * 8 + 4) / 5 - 1) / 5;
                let mut i = 0;
                while i < L {
                    if i < en {
                        assert!(sink.buf[i] == exp[i], "principal text differs from the specification's text form");
                    }
                    i += 1;
                }
                kani::cover!(en > 6 && sink.buf[5] == b'-', "dash after the first group");
                kani::cover!(N == 0 || sink.buf[1] == b'7', "digit character printed");
            }
        }
    };
}
display_h!(c16_display_len0, 0, 12);
display_h!(c16_display_len1, 1, 12);
display_h!(c16_display_len2, 2, 13);
display_h!(c16_display_len3, 3, 16);
display_h!(c16_display_len4, 4, 17);
display_h!(c16_display_len5, 5, 19);
display_h!(c16_display_len6, 6, 21);
display_h!(c16_display_len9, 9, 27);
display_h!(c16_display_len10, 10, 29);

harness! {
    #[kani::unwind(42)]
    fn c16_ctor_len() {
        let b: [u8; 40] = kani::any();
        let len: usize = kani::any();
        kani::assume(len <= 40);
        let r = Principal::try_from_slice(&b[..len]);
        assert!(r.is_ok() == (len <= 29), "try_from_slice must accept exactly the slices of at most 29 bytes");
        if let Ok(p) = &r {
            let s = p.as_slice();
            assert!(s.len() == len && p.len() as usize == len, "stored length differs from the input length");
            let mut i = 0;
            while i < 29 {
                if i < len {
                    assert!(s[i] == b[i], "stored bytes differ from the input");
                }
                i += 1;
            }
        }
        kani::cover!(len == 29 && r.is_ok(), "29 bytes accepted");
        kani::cover!(len == 30 && r.is_err(), "30 bytes rejected");
    }
}

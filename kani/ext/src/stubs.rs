//! The cut list (DESIGN.md §2.3). Every stub is part of every claim that uses it.
use candid::types::{Type, TypeId};

pub fn fmt_stub(_: std::fmt::Arguments<'_>) -> String {
    String::new()
}
pub fn msg_stub<T: ToString>(_m: T) -> candid::Error {
    candid::Error::Binread(Vec::new())
}
/// see DESIGN §2.3: forgetting the io::Error avoids its drop glue (Box<dyn Error> arm)
pub fn from_io_stub(e: std::io::Error) -> candid::Error {
    std::mem::forget(e);
    candid::Error::Binread(Vec::new())
}
pub fn stack_stub() -> Option<usize> {
    None
}
pub fn drop_stub(_e: &mut ::anyhow::Error) {}
pub fn rc_drop_stub<T: ?Sized, A: std::alloc::Allocator>(_r: &mut std::rc::Rc<T, A>) {}
pub fn find_type_stub(_id: &TypeId) -> Option<Type> {
    None
}
pub fn tid_fmt_stub(_t: &TypeId, _f: &mut std::fmt::Formatter<'_>) -> std::fmt::Result {
    Ok(())
}
pub fn eprint_stub(_a: std::fmt::Arguments<'_>) {}
pub fn rs_stub() -> std::hash::RandomState {
    unsafe { std::mem::transmute::<(u64, u64), std::hash::RandomState>((0, 0)) }
}
pub fn crc_none(_i: u32, _a: u64) -> Option<crc32fast::Hasher> {
    None
}

/// Wraps a harness with the base cut list.
macro_rules! harness {
    ($(#[$m:meta])* fn $name:ident() $body:block) => {
        #[kani::proof]
        #[kani::stub(alloc::fmt::format, crate::stubs::fmt_stub)]
        #[kani::stub(candid::Error::msg, crate::stubs::msg_stub)]
        #[kani::stub(stacker::remaining_stack, crate::stubs::stack_stub)]
        #[kani::stub(<candid::Error as std::convert::From<std::io::Error>>::from, crate::stubs::from_io_stub)]
        #[kani::stub(<::anyhow::Error as std::ops::Drop>::drop, crate::stubs::drop_stub)]
        #[kani::stub(std::rc::Rc::drop_slow, crate::stubs::rc_drop_stub)]
        #[kani::stub(candid::types::internal::find_type, crate::stubs::find_type_stub)]
        #[kani::stub(<candid::types::TypeId as std::fmt::Display>::fmt, crate::stubs::tid_fmt_stub)]
        #[kani::stub(std::io::_eprint, crate::stubs::eprint_stub)]
        #[kani::stub(std::hash::RandomState::new, crate::stubs::rs_stub)]
        $(#[$m])*
        pub fn $name() $body
    };
}

// Regenerates the source slice from /repo on every build: the item `fn idl_hash`
// of candid_derive (a proc-macro crate whose functions cannot be linked) is
// extracted textually and include!d by src/lib.rs as derive_slice::idl_hash.
use std::{env, fs, path::PathBuf};

fn extract_fn(src: &str, name: &str) -> String {
    let pat = format!("fn {name}");
    let start_kw = src.find(&pat).unwrap_or_else(|| panic!("slice: `{pat}` not found"));
    // include a leading `pub(crate)`/`pub` on the same line
    let line_start = src[..start_kw].rfind('\n').map(|i| i + 1).unwrap_or(0);
    let open = start_kw + src[start_kw..].find('{').expect("slice: no body");
    let mut depth = 0usize;
    let mut end = None;
    for (i, c) in src[open..].char_indices() {
        match c {
            '{' => depth += 1,
            '}' => {
                depth -= 1;
                if depth == 0 {
                    end = Some(open + i + 1);
                    break;
                }
            }
            _ => {}
        }
    }
    let end = end.expect("slice: unbalanced braces");
    src[line_start..end].to_string()
}

fn main() {
    let p = "/repo/rust/candid_derive/src/lib.rs";
    println!("cargo:rerun-if-changed={p}");
    let src = fs::read_to_string(p).expect("read candid_derive/src/lib.rs");
    let item = extract_fn(&src, "idl_hash");
    let item = item.replace("pub(crate) fn", "pub fn");
    let out = PathBuf::from(env::var("OUT_DIR").unwrap()).join("derive_slice.rs");
    fs::write(out, item).unwrap();
}

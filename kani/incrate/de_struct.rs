// Records decoded into a derive(Deserialize) struct: the spec's record coercion — fields are
// merged by ascending id; a field missing on the wire must be opt/null/reserved at the expected
// type (reads as null); a surplus wire field is skipped; names are identified with hash ids.
// Expected: record { a : nat8; b : opt nat8 }  (hash("a") = 97, hash("b") = 98).
use super::common::*;
use super::super::*;
use crate::types::{Field, Label, Type, TypeInner};
use serde::Deserialize;

#[derive(serde::Deserialize, Debug, PartialEq, Clone, Copy)]
pub struct S2 {
    a: u8,
    b: Option<u8>,
}
fn fld(id: Label, t: Type) -> Field {
    Field { id: id.into(), ty: t }
}
fn expected_ty() -> Type {
    ty(TypeInner::Record(vec![
        fld(Label::Named("a".to_string()), ty(TypeInner::Nat8)),
        fld(Label::Named("b".to_string()), ty(TypeInner::Opt(ty(TypeInner::Nat8)))),
    ]))
}
fn opt_of(flag: u8, v: u8) -> Option<Option<u8>> {
    match flag { 0 => Some(None), 1 => Some(Some(v)), _ => None }
}

macro_rules! struct_h {
    ($name:ident, $n:expr, $wire:expr, $oracle:expr) => {
        de_harness! {
            #[kani::unwind(8)]
            fn $name() {
                const N: usize = $n;
                let buf: [u8; N] = kani::any();
                let cfg = cfg_any();
                let unmetered = cfg.decoding_quota.is_none() && cfg.skipping_quota.is_none();
                let mut de = mk_de(&buf[..], $wire, expected_ty(), cfg);
                let r = <S2>::deserialize(&mut de);
                let pos = de.input.position() as usize;
                std::assert!(pos <= N, "cursor beyond the input");
                // oracle: Some((value, consumed)) or None (= the spec's coercion fails)
                let exp: Option<(S2, usize)> = ($oracle)(&buf);
                match (&r, exp) {
                    (Ok(v), Some((e, c))) => {
                        std::assert!(*v == e, "record decoded to a different value than the spec's coercion gives");
                        std::assert!(pos == c, "wrong number of bytes consumed");
                    }
                    (Ok(_), None) => std::assert!(false, "record accepted where the spec's coercion fails"),
                    (Err(_), Some(_)) => std::assert!(!unmetered, "record rejected where the spec's coercion succeeds"),
                    (Err(_), None) => {}
                }
                kani::cover!(r.is_ok() == exp.is_some() && unmetered, "outcome as the spec requires");
                std::mem::forget(r);
                std::mem::forget(de);
            }
        }
    };
}

// 1. wire == expected
struct_h!(c08_struct_same, 3,
    ty(TypeInner::Record(vec![fld(Label::Id(97), ty(TypeInner::Nat8)), fld(Label::Id(98), ty(TypeInner::Opt(ty(TypeInner::Nat8))))])),
    |b: &[u8; 3]| opt_of(b[1], b[2]).map(|o| (S2 { a: b[0], b: o }, if b[1] == 0 { 2 } else { 3 })));
// 2. optional field missing on the wire -> null
struct_h!(c08_struct_missing_opt, 2,
    ty(TypeInner::Record(vec![fld(Label::Id(97), ty(TypeInner::Nat8))])),
    |b: &[u8; 2]| Some((S2 { a: b[0], b: None }, 1)));
// 3. surplus field after (skipped)
struct_h!(c08_struct_surplus_after, 4,
    ty(TypeInner::Record(vec![fld(Label::Id(97), ty(TypeInner::Nat8)), fld(Label::Id(98), ty(TypeInner::Opt(ty(TypeInner::Nat8)))),
                              fld(Label::Id(99), ty(TypeInner::Bool))])),
    |b: &[u8; 4]| match b[1] {
        0 => if b[2] <= 1 { Some((S2 { a: b[0], b: None }, 3)) } else { None },
        1 => if b[3] <= 1 { Some((S2 { a: b[0], b: Some(b[2]) }, 4)) } else { None },
        _ => None,
    });
// 4. surplus field before (skipped), optional field missing
struct_h!(c08_struct_surplus_before, 3,
    ty(TypeInner::Record(vec![fld(Label::Id(5), ty(TypeInner::Nat16)), fld(Label::Id(97), ty(TypeInner::Nat8))])),
    |b: &[u8; 3]| Some((S2 { a: b[2], b: None }, 3)));
// 5. required field missing -> error
struct_h!(c08_struct_missing_required, 2,
    ty(TypeInner::Record(vec![fld(Label::Id(98), ty(TypeInner::Opt(ty(TypeInner::Nat8))))])),
    |_b: &[u8; 2]| None);
// 6. required field at the wrong type -> error
struct_h!(c08_struct_wrong_type, 3,
    ty(TypeInner::Record(vec![fld(Label::Id(97), ty(TypeInner::Nat16))])),
    |_b: &[u8; 3]| None);
// 7. optional field at a mismatching type -> null (value skipped)
struct_h!(c08_struct_opt_mismatch, 3,
    ty(TypeInner::Record(vec![fld(Label::Id(97), ty(TypeInner::Nat8)), fld(Label::Id(98), ty(TypeInner::Nat16))])),
    |b: &[u8; 3]| Some((S2 { a: b[0], b: None }, 3)));

// 8. the wire id is symbolic: the field is matched iff the id equals the hash of the name (C15)
de_harness! {
    #[kani::unwind(8)]
    fn c15_struct_symbolic_id() {
        let buf: [u8; 2] = kani::any();
        let id: u32 = kani::any();
        let wire = ty(TypeInner::Record(vec![fld(Label::Id(id), ty(TypeInner::Nat8))]));
        let mut de = mk_de(&buf[..], wire, expected_ty(), cfg_none());
        let r = <S2>::deserialize(&mut de);
        match &r {
            Ok(v) => {
                std::assert!(id == 97, "a wire field was matched to `a` although its id is not hash(\"a\")");
                std::assert!(v.a == buf[0] && v.b.is_none(), "wrong value");
            }
            Err(_) => std::assert!(id != 97, "the wire field with id hash(\"a\") was not matched to `a`"),
        }
        kani::cover!(r.is_ok(), "matched by hash");
        kani::cover!(r.is_err() && id == 98, "id of the other field");
        std::mem::forget(r);
        std::mem::forget(de);
    }
}

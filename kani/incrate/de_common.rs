//! Shared by all in-crate decoder harnesses: the cut list with in-crate paths,
//! the harness wrapper, and direct construction of decoder state.
use super::super::*;
use crate::types::{Type, TypeEnv, TypeInner};
use std::collections::VecDeque;
use std::io::Cursor;
use std::rc::Rc;

pub fn fmt_stub(_: std::fmt::Arguments<'_>) -> String {
    String::new()
}
pub fn msg_stub<T: ToString>(_m: T) -> crate::Error {
    crate::Error::Binread(Vec::new())
}
/// `impl From<io::Error> for candid::Error` is `Error::msg(format!("io error: {e}"))`; the
/// payload is already cut. Forgetting `e` instead of dropping it avoids io::Error's drop
/// glue, whose `Box<dyn Error>` arm CBMC resolves against every error type in the program.
pub fn from_io_stub(e: std::io::Error) -> crate::Error {
    std::mem::forget(e);
    crate::Error::Binread(Vec::new())
}
pub fn stack_stub() -> Option<usize> {
    None
}
pub fn drop_stub(_e: &mut ::anyhow::Error) {}
pub fn rc_drop_stub<T: ?Sized, A: std::alloc::Allocator>(_r: &mut std::rc::Rc<T, A>) {}
pub fn find_type_stub(_id: &crate::types::TypeId) -> Option<Type> {
    None
}
pub fn tid_fmt_stub(_t: &crate::types::TypeId, _f: &mut std::fmt::Formatter<'_>) -> std::fmt::Result {
    Ok(())
}
pub fn eprint_stub(_a: std::fmt::Arguments<'_>) {}
pub fn rs_stub() -> std::hash::RandomState {
    unsafe { std::mem::transmute::<(u64, u64), std::hash::RandomState>((0, 0)) }
}

// binread's `debug_template` feature (enabled by candid) makes every derive-generated
// reader call into binread::binary_template, which locks a lazy_static Mutex holding an
// optional `Box<dyn Write>` opened from $DEBUG_TEMPLATE and writes a 010-editor template.
// Environment model: DEBUG_TEMPLATE is unset, so these functions are no-ops.
pub fn bt_start(_n: &str) {}
pub fn bt_comment(_c: &str) {}
pub fn bt_end(_n: Option<&str>) {}
pub fn bt_named(_e: binread::Endian, _p: u64, _t: &str, _v: &str) {}
pub fn bt_write(_e: binread::Endian, _p: u64, _t: &str) {}
pub fn bt_vec_named(_e: binread::Endian, _p: u64, _t: &str, _c: usize, _n: &str) {}
pub fn bt_vec(_e: binread::Endian, _p: u64, _t: &str, _c: usize) {}

/// Guarded cut: every harness uses an empty type environment and types without
/// `Var`/`Knot`, for which `trace_type_with_depth` is `Ok(t.clone())`. Reaching
/// it with a `Var`/`Knot` fails the harness instead of being silently mis-modelled.
pub fn trace_stub<'a>(_env: &'a TypeEnv, t: &'a Type, _depth: &crate::utils::RecursionDepth) -> Result<Type> {
    std::assert!(!matches!(t.as_ref(), TypeInner::Var(_) | TypeInner::Knot(_)), "harness types must not contain Var/Knot");
    Ok(t.clone())
}

macro_rules! de_harness {
    ($(#[$m:meta])* fn $name:ident() $body:block) => {
        #[kani::proof]
        #[kani::stub(alloc::fmt::format, crate::de::verif_kani::common::fmt_stub)]
        #[kani::stub(crate::Error::msg, crate::de::verif_kani::common::msg_stub)]
        #[kani::stub(stacker::remaining_stack, crate::de::verif_kani::common::stack_stub)]
        #[kani::stub(<crate::Error as std::convert::From<std::io::Error>>::from, crate::de::verif_kani::common::from_io_stub)]
        #[kani::stub(<::anyhow::Error as std::ops::Drop>::drop, crate::de::verif_kani::common::drop_stub)]
        #[kani::stub(std::rc::Rc::drop_slow, crate::de::verif_kani::common::rc_drop_stub)]
        #[kani::stub(crate::types::internal::find_type, crate::de::verif_kani::common::find_type_stub)]
        #[kani::stub(<crate::types::TypeId as std::fmt::Display>::fmt, crate::de::verif_kani::common::tid_fmt_stub)]
        #[kani::stub(std::io::_eprint, crate::de::verif_kani::common::eprint_stub)]
        #[kani::stub(std::hash::RandomState::new, crate::de::verif_kani::common::rs_stub)]
        #[kani::stub(crate::types::type_env::TypeEnv::trace_type_with_depth, crate::de::verif_kani::common::trace_stub)]
        #[kani::stub(binread::binary_template::write_start_struct, crate::de::verif_kani::common::bt_start)]
        #[kani::stub(binread::binary_template::write_comment, crate::de::verif_kani::common::bt_comment)]
        #[kani::stub(binread::binary_template::write_end_struct, crate::de::verif_kani::common::bt_end)]
        #[kani::stub(binread::binary_template::write_named, crate::de::verif_kani::common::bt_named)]
        #[kani::stub(binread::binary_template::write, crate::de::verif_kani::common::bt_write)]
        #[kani::stub(binread::binary_template::write_vec_named, crate::de::verif_kani::common::bt_vec_named)]
        #[kani::stub(binread::binary_template::write_vec, crate::de::verif_kani::common::bt_vec)]
        $(#[$m])*
        pub fn $name() $body
    };
}

/// `Type` values over *typed static storage* instead of the heap. Kani models
/// `Rc::new`'s allocation as an untyped byte array, and CBMC cannot constant-fold
/// a discriminant read from it: even for a concrete type every arm of every
/// `match` on the tag is explored (measured: deserialize_any on a concrete nat8
/// >15 min; with pooled types the dispatch is pruned). Layout = std's
/// `#[repr(C)] RcInner { strong, weak, value }`, so `Rc::from_raw(&slot.value)`
/// yields an ordinary `Rc`; the strong count starts high and `Rc::drop_slow` is
/// cut, so a slot is never freed. Only the harness's own types are built this
/// way; the code under test is unchanged.
#[repr(C)]
pub struct RcSlot {
    strong: std::cell::Cell<usize>,
    weak: std::cell::Cell<usize>,
    value: TypeInner,
}
pub const POOL_N: usize = 32;
static mut POOL: [RcSlot; POOL_N] = [const {
    RcSlot { strong: std::cell::Cell::new(1 << 20), weak: std::cell::Cell::new(1), value: TypeInner::Null }
}; POOL_N];
static mut POOL_NEXT: usize = 0;
pub fn ty(t: TypeInner) -> Type {
    unsafe {
        let i = POOL_NEXT;
        std::assert!(i < POOL_N, "type pool exhausted");
        POOL_NEXT = i + 1;
        let slot = &mut *std::ptr::addr_of_mut!(POOL[i]);
        std::ptr::write(&mut slot.value, t);
        Type(Rc::from_raw(&slot.value as *const TypeInner))
    }
}

// num-bigint boundary for paths where the big number's *value* is irrelevant (skipping):
// the constructor/serialiser are replaced by trivial total functions. What candid does on
// its side (how many bytes it consumes, what it charges) is unchanged.
pub fn bn_from_radix_le(_d: &[u8], _radix: u32) -> Option<num_bigint::BigUint> {
    Some(num_bigint::BigUint::default())
}
pub fn bn_to_bytes_le(_s: &num_bigint::BigUint) -> Vec<u8> {
    Vec::new()
}
pub fn bn_to_signed_bytes_le(_s: &num_bigint::BigInt) -> Vec<u8> {
    Vec::new()
}
pub fn bn_from_u64(_v: u64) -> num_bigint::BigUint {
    num_bigint::BigUint::default()
}
pub fn bn_from_i64(_v: i64) -> num_bigint::BigInt {
    num_bigint::BigInt::default()
}
pub fn bn_sub_assign(_a: &mut num_bigint::BigInt, _b: num_bigint::BigInt) {}
pub fn bn_shl(_a: num_bigint::BigInt, _b: usize) -> num_bigint::BigInt {
    num_bigint::BigInt::default()
}
pub fn bn_int_from_biguint(_a: num_bigint::BigUint) -> num_bigint::BigInt {
    num_bigint::BigInt::default()
}

/// Decoder state exactly as `Deserializer::from_bytes` + `deserialize_with_type`
/// leave it before the first value is read: empty type table, fresh memo, no
/// fast-path flag set, cursor at 0 of the *value* bytes.
pub fn mk_de<'a>(input: &'a [u8], wire: Type, expect: Type, config: DecoderConfig) -> Deserializer<'a> {
    Deserializer {
        input: Cursor::new(input),
        table: Rc::new(TypeEnv::new()),
        types: VecDeque::new(),
        wire_type: wire,
        expect_type: expect,
        gamma: Gamma::default(),
        field_name: None,
        is_untyped: false,
        config,
        recursion_depth: crate::utils::RecursionDepth::new(),
        primitive_vec_fast_path: None,
        #[cfg(feature = "bignum")]
        bignum_vec_fast_path: None,
        text_fast_path: false,
    }
}

pub fn cfg_none() -> DecoderConfig {
    DecoderConfig { decoding_quota: None, skipping_quota: None, max_type_len: None, full_error_message: false }
}

/// Arbitrary decoder configuration: both quotas symbolic, error verbosity symbolic.
pub fn cfg_any() -> DecoderConfig {
    DecoderConfig {
        decoding_quota: kani::any(),
        skipping_quota: kani::any(),
        max_type_len: None,
        full_error_message: kani::any(),
    }
}

include!("/verif/kani/menu.rs");

macro_rules! len_mode {
    (symbolic, $n:expr) => {{ let l: usize = kani::any(); kani::assume(l <= $n); l }};
    (fixed, $n:expr) => { $n };
}

/// de_harness! plus the value-irrelevant num-bigint boundary (skipped big numbers).
macro_rules! de_harness_bn {
    ($(#[$m:meta])* fn $name:ident() $body:block) => {
        de_harness! {
            #[kani::stub(num_bigint::BigUint::from_radix_le, crate::de::verif_kani::common::bn_from_radix_le)]
            #[kani::stub(num_bigint::BigUint::to_bytes_le, crate::de::verif_kani::common::bn_to_bytes_le)]
            #[kani::stub(num_bigint::BigInt::to_signed_bytes_le, crate::de::verif_kani::common::bn_to_signed_bytes_le)]
            #[kani::stub(<num_bigint::BigUint as std::convert::From<u64>>::from, crate::de::verif_kani::common::bn_from_u64)]
            #[kani::stub(<num_bigint::BigInt as std::convert::From<i64>>::from, crate::de::verif_kani::common::bn_from_i64)]
            #[kani::stub(<num_bigint::BigInt as std::convert::From<num_bigint::BigUint>>::from, crate::de::verif_kani::common::bn_int_from_biguint)]
            #[kani::stub(<num_bigint::BigInt as std::ops::SubAssign<num_bigint::BigInt>>::sub_assign, crate::de::verif_kani::common::bn_sub_assign)]
            #[kani::stub(<num_bigint::BigInt as std::ops::Shl<usize>>::shl, crate::de::verif_kani::common::bn_shl)]
            $(#[$m])*
            fn $name() $body
        }
    };
}

/// Case split over the primitive menu with *pooled* (typed, prunable) types; `$s`
/// is bound to the concrete selector so that oracles are evaluated per arm too.
macro_rules! for_prim_pooled {
    ($w:expr, $t:ident, $s:ident => $body:block) => {
        match $w {
            0 => { let $s: u8 = 0; let $t: Type = ty(TypeInner::Null); $body }
            1 => { let $s: u8 = 1; let $t: Type = ty(TypeInner::Bool); $body }
            2 => { let $s: u8 = 2; let $t: Type = ty(TypeInner::Nat); $body }
            3 => { let $s: u8 = 3; let $t: Type = ty(TypeInner::Int); $body }
            4 => { let $s: u8 = 4; let $t: Type = ty(TypeInner::Nat8); $body }
            5 => { let $s: u8 = 5; let $t: Type = ty(TypeInner::Nat16); $body }
            6 => { let $s: u8 = 6; let $t: Type = ty(TypeInner::Nat32); $body }
            7 => { let $s: u8 = 7; let $t: Type = ty(TypeInner::Nat64); $body }
            8 => { let $s: u8 = 8; let $t: Type = ty(TypeInner::Int8); $body }
            9 => { let $s: u8 = 9; let $t: Type = ty(TypeInner::Int16); $body }
            10 => { let $s: u8 = 10; let $t: Type = ty(TypeInner::Int32); $body }
            11 => { let $s: u8 = 11; let $t: Type = ty(TypeInner::Int64); $body }
            12 => { let $s: u8 = 12; let $t: Type = ty(TypeInner::Float32); $body }
            13 => { let $s: u8 = 13; let $t: Type = ty(TypeInner::Float64); $body }
            14 => { let $s: u8 = 14; let $t: Type = ty(TypeInner::Text); $body }
            15 => { let $s: u8 = 15; let $t: Type = ty(TypeInner::Reserved); $body }
            _ => { let $s: u8 = 16; let $t: Type = ty(TypeInner::Empty); $body }
        }
    };
}

// Recording num-bigint boundary for decoder harnesses whose targets are candid::Int / Nat:
// the mathematical value handed to num-bigint is logged; which constructor is used is not asserted.
pub static mut BN_LOG: [i128; 4] = [0; 4];
pub static mut BN_LOG_N: usize = 0;
fn bn_log(v: i128) {
    unsafe {
        if BN_LOG_N < 4 {
            BN_LOG[BN_LOG_N] = v;
        }
        BN_LOG_N += 1;
    }
}
pub fn rec_biguint_from_u64(v: u64) -> num_bigint::BigUint {
    bn_log(v as i128);
    num_bigint::BigUint::default()
}
pub fn rec_bigint_from_u64(v: u64) -> num_bigint::BigInt {
    bn_log(v as i128);
    num_bigint::BigInt::default()
}
pub fn rec_bigint_from_i64(v: i64) -> num_bigint::BigInt {
    bn_log(v as i128);
    num_bigint::BigInt::default()
}
/// de_harness! with the recording boundary for small values and the value-irrelevant one for the
/// (unreachable for 1-byte numbers, but syntactically present) big path.
macro_rules! de_harness_bnrec {
    ($(#[$m:meta])* fn $name:ident() $body:block) => {
        de_harness! {
            #[kani::stub(num_bigint::BigUint::from_radix_le, crate::de::verif_kani::common::bn_from_radix_le)]
            #[kani::stub(num_bigint::BigUint::to_bytes_le, crate::de::verif_kani::common::bn_to_bytes_le)]
            #[kani::stub(num_bigint::BigInt::to_signed_bytes_le, crate::de::verif_kani::common::bn_to_signed_bytes_le)]
            #[kani::stub(<num_bigint::BigUint as std::convert::From<u64>>::from, crate::de::verif_kani::common::rec_biguint_from_u64)]
            #[kani::stub(<num_bigint::BigInt as std::convert::From<u64>>::from, crate::de::verif_kani::common::rec_bigint_from_u64)]
            #[kani::stub(<num_bigint::BigInt as std::convert::From<i64>>::from, crate::de::verif_kani::common::rec_bigint_from_i64)]
            #[kani::stub(<num_bigint::BigInt as std::convert::From<num_bigint::BigUint>>::from, crate::de::verif_kani::common::bn_int_from_biguint)]
            #[kani::stub(<num_bigint::BigInt as std::ops::SubAssign<num_bigint::BigInt>>::sub_assign, crate::de::verif_kani::common::bn_sub_assign)]
            #[kani::stub(<num_bigint::BigInt as std::ops::Shl<usize>>::shl, crate::de::verif_kani::common::bn_shl)]
            $(#[$m])*
            fn $name() $body
        }
    };
}

//! Shared by all in-crate decoder harnesses: the cut list with in-crate paths,
//! the harness wrapper, and direct construction of decoder state.
use super::super::*;
use crate::types::{Type, TypeEnv, TypeInner};
use std::collections::VecDeque;
use std::io::Cursor;
use std::rc::Rc;

pub fn fmt_stub(_: std::fmt::Arguments<'_>) -> String {
    String::new()
}
pub fn msg_stub<T: ToString>(_m: T) -> crate::Error {
    crate::Error::Binread(Vec::new())
}
pub fn stack_stub() -> Option<usize> {
    None
}
pub fn drop_stub(_e: &mut ::anyhow::Error) {}
pub fn rc_drop_stub<T: ?Sized, A: std::alloc::Allocator>(_r: &mut std::rc::Rc<T, A>) {}
pub fn find_type_stub(_id: &crate::types::TypeId) -> Option<Type> {
    None
}
pub fn tid_fmt_stub(_t: &crate::types::TypeId, _f: &mut std::fmt::Formatter<'_>) -> std::fmt::Result {
    Ok(())
}
pub fn eprint_stub(_a: std::fmt::Arguments<'_>) {}
pub fn rs_stub() -> std::hash::RandomState {
    unsafe { std::mem::transmute::<(u64, u64), std::hash::RandomState>((0, 0)) }
}

// binread's `debug_template` feature (enabled by candid) makes every derive-generated
// reader call into binread::binary_template, which locks a lazy_static Mutex holding an
// optional `Box<dyn Write>` opened from $DEBUG_TEMPLATE and writes a 010-editor template.
// Environment model: DEBUG_TEMPLATE is unset, so these functions are no-ops.
pub fn bt_start(_n: &str) {}
pub fn bt_comment(_c: &str) {}
pub fn bt_end(_n: Option<&str>) {}
pub fn bt_named(_e: binread::Endian, _p: u64, _t: &str, _v: &str) {}
pub fn bt_write(_e: binread::Endian, _p: u64, _t: &str) {}
pub fn bt_vec_named(_e: binread::Endian, _p: u64, _t: &str, _c: usize, _n: &str) {}
pub fn bt_vec(_e: binread::Endian, _p: u64, _t: &str, _c: usize) {}

/// Guarded cut: every harness uses an empty type environment and types without
/// `Var`/`Knot`, for which `trace_type_with_depth` is `Ok(t.clone())`. Reaching
/// it with a `Var`/`Knot` fails the harness instead of being silently mis-modelled.
pub fn trace_stub<'a>(_env: &'a TypeEnv, t: &'a Type, _depth: &crate::utils::RecursionDepth) -> Result<Type> {
    std::assert!(!matches!(t.as_ref(), TypeInner::Var(_) | TypeInner::Knot(_)), "harness types must not contain Var/Knot");
    Ok(t.clone())
}

macro_rules! de_harness {
    ($(#[$m:meta])* fn $name:ident() $body:block) => {
        #[kani::proof]
        #[kani::stub(alloc::fmt::format, crate::de::verif_kani::common::fmt_stub)]
        #[kani::stub(crate::Error::msg, crate::de::verif_kani::common::msg_stub)]
        #[kani::stub(stacker::remaining_stack, crate::de::verif_kani::common::stack_stub)]
        #[kani::stub(<::anyhow::Error as std::ops::Drop>::drop, crate::de::verif_kani::common::drop_stub)]
        #[kani::stub(std::rc::Rc::drop_slow, crate::de::verif_kani::common::rc_drop_stub)]
        #[kani::stub(crate::types::internal::find_type, crate::de::verif_kani::common::find_type_stub)]
        #[kani::stub(<crate::types::TypeId as std::fmt::Display>::fmt, crate::de::verif_kani::common::tid_fmt_stub)]
        #[kani::stub(std::io::_eprint, crate::de::verif_kani::common::eprint_stub)]
        #[kani::stub(std::hash::RandomState::new, crate::de::verif_kani::common::rs_stub)]
        #[kani::stub(crate::types::type_env::TypeEnv::trace_type_with_depth, crate::de::verif_kani::common::trace_stub)]
        #[kani::stub(binread::binary_template::write_start_struct, crate::de::verif_kani::common::bt_start)]
        #[kani::stub(binread::binary_template::write_comment, crate::de::verif_kani::common::bt_comment)]
        #[kani::stub(binread::binary_template::write_end_struct, crate::de::verif_kani::common::bt_end)]
        #[kani::stub(binread::binary_template::write_named, crate::de::verif_kani::common::bt_named)]
        #[kani::stub(binread::binary_template::write, crate::de::verif_kani::common::bt_write)]
        #[kani::stub(binread::binary_template::write_vec_named, crate::de::verif_kani::common::bt_vec_named)]
        #[kani::stub(binread::binary_template::write_vec, crate::de::verif_kani::common::bt_vec)]
        $(#[$m])*
        pub fn $name() $body
    };
}

/// `Type` values over *typed static storage* instead of the heap. Kani models
/// `Rc::new`'s allocation as an untyped byte array, and CBMC cannot constant-fold
/// a discriminant read from it: even for a concrete type every arm of every
/// `match` on the tag is explored (measured: deserialize_any on a concrete nat8
/// >15 min; with pooled types the dispatch is pruned). Layout = std's
/// `#[repr(C)] RcInner { strong, weak, value }`, so `Rc::from_raw(&slot.value)`
/// yields an ordinary `Rc`; the strong count starts high and `Rc::drop_slow` is
/// cut, so a slot is never freed. Only the harness's own types are built this
/// way; the code under test is unchanged.
#[repr(C)]
pub struct RcSlot {
    strong: std::cell::Cell<usize>,
    weak: std::cell::Cell<usize>,
    value: TypeInner,
}
pub const POOL_N: usize = 32;
static mut POOL: [RcSlot; POOL_N] = [const {
    RcSlot { strong: std::cell::Cell::new(1 << 20), weak: std::cell::Cell::new(1), value: TypeInner::Null }
}; POOL_N];
static mut POOL_NEXT: usize = 0;
pub fn ty(t: TypeInner) -> Type {
    unsafe {
        let i = POOL_NEXT;
        std::assert!(i < POOL_N, "type pool exhausted");
        POOL_NEXT = i + 1;
        let slot = &mut *std::ptr::addr_of_mut!(POOL[i]);
        std::ptr::write(&mut slot.value, t);
        Type(Rc::from_raw(&slot.value as *const TypeInner))
    }
}

/// Decoder state exactly as `Deserializer::from_bytes` + `deserialize_with_type`
/// leave it before the first value is read: empty type table, fresh memo, no
/// fast-path flag set, cursor at 0 of the *value* bytes.
pub fn mk_de<'a>(input: &'a [u8], wire: Type, expect: Type, config: DecoderConfig) -> Deserializer<'a> {
    Deserializer {
        input: Cursor::new(input),
        table: Rc::new(TypeEnv::new()),
        types: VecDeque::new(),
        wire_type: wire,
        expect_type: expect,
        gamma: Gamma::default(),
        field_name: None,
        is_untyped: false,
        config,
        recursion_depth: crate::utils::RecursionDepth::new(),
        primitive_vec_fast_path: None,
        #[cfg(feature = "bignum")]
        bignum_vec_fast_path: None,
        text_fast_path: false,
    }
}

pub fn cfg_none() -> DecoderConfig {
    DecoderConfig { decoding_quota: None, skipping_quota: None, max_type_len: None, full_error_message: false }
}

/// Arbitrary decoder configuration: both quotas symbolic, error verbosity symbolic.
pub fn cfg_any() -> DecoderConfig {
    DecoderConfig {
        decoding_quota: kani::any(),
        skipping_quota: kani::any(),
        max_type_len: None,
        full_error_message: kani::any(),
    }
}

include!("/verif/kani/menu.rs");

macro_rules! len_mode {
    (symbolic, $n:expr) => {{ let l: usize = kani::any(); kani::assume(l <= $n); l }};
    (fixed, $n:expr) => { $n };
}

use super::common::*;
use super::super::*;
use crate::types::{Type, TypeInner};
use serde::Deserialize;
use serde::de::Deserializer as _;

de_harness! {
    #[kani::unwind(6)]
    fn probe_opt_u8_same() {
        const N: usize = 3;
        let buf: [u8; N] = kani::any();
        let ot: Type = ty(TypeInner::Opt(ty(TypeInner::Nat8)));
        let wt: Type = ty(TypeInner::Opt(ty(TypeInner::Nat8)));
        let mut de = mk_de(&buf[..], wt, ot, cfg_none());
        let r = <Option<u8>>::deserialize(&mut de);
        kani::cover!(matches!(r, Ok(Some(_))), "some");
        kani::cover!(matches!(r, Ok(None)), "none");
        std::mem::forget(r);
        std::mem::forget(de);
    }
}
de_harness! {
    #[kani::unwind(6)]
    fn probe_opt_u8_mismatch() {
        const N: usize = 3;
        let buf: [u8; N] = kani::any();
        let ot: Type = ty(TypeInner::Opt(ty(TypeInner::Nat8)));
        let wt: Type = ty(TypeInner::Opt(ty(TypeInner::Bool)));
        let mut de = mk_de(&buf[..], wt, ot, cfg_none());
        let r = <Option<u8>>::deserialize(&mut de);
        kani::cover!(matches!(r, Ok(None)), "none");
        kani::cover!(r.is_err(), "err");
        std::mem::forget(r);
        std::mem::forget(de);
    }
}
struct U8V;
impl<'de> Visitor<'de> for U8V {
    type Value = u8;
    fn expecting(&self, f: &mut std::fmt::Formatter) -> std::fmt::Result { f.write_str("u8") }
    fn visit_u8<E>(self, v: u8) -> std::result::Result<u8, E> { Ok(v) }
}
de_harness! {
    #[kani::unwind(6)]
    fn probe_any_u8() {
        const N: usize = 3;
        let buf: [u8; N] = kani::any();
        let mut de = mk_de(&buf[..], ty(TypeInner::Nat8), ty(TypeInner::Nat8), cfg_none());
        let r = (&mut de).deserialize_any(U8V);
        kani::cover!(r.is_ok(), "ok");
        std::mem::forget(r);
        std::mem::forget(de);
    }
}

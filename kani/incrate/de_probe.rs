use super::common::*;
use super::super::*;
use crate::types::{Type, TypeInner};
use serde::Deserialize;
use serde::de::Deserializer as _;

de_harness! {
    #[kani::unwind(6)]
    fn probe_opt_u8_same() {
        const N: usize = 3;
        let buf: [u8; N] = kani::any();
        let ot: Type = ty(TypeInner::Opt(ty(TypeInner::Nat8)));
        let wt: Type = ty(TypeInner::Opt(ty(TypeInner::Nat8)));
        let mut de = mk_de(&buf[..], wt, ot, cfg_none());
        let r = <Option<u8>>::deserialize(&mut de);
        kani::cover!(matches!(r, Ok(Some(_))), "some");
        kani::cover!(matches!(r, Ok(None)), "none");
        std::mem::forget(r);
        std::mem::forget(de);
    }
}
de_harness! {
    #[kani::unwind(6)]
    fn probe_opt_u8_mismatch() {
        const N: usize = 3;
        let buf: [u8; N] = kani::any();
        let ot: Type = ty(TypeInner::Opt(ty(TypeInner::Nat8)));
        let wt: Type = ty(TypeInner::Opt(ty(TypeInner::Bool)));
        let mut de = mk_de(&buf[..], wt, ot, cfg_none());
        let r = <Option<u8>>::deserialize(&mut de);
        kani::cover!(matches!(r, Ok(None)), "none");
        kani::cover!(r.is_err(), "err");
        std::mem::forget(r);
        std::mem::forget(de);
    }
}
struct U8V;
impl<'de> Visitor<'de> for U8V {
    type Value = u8;
    fn expecting(&self, f: &mut std::fmt::Formatter) -> std::fmt::Result { f.write_str("u8") }
    fn visit_u8<E>(self, v: u8) -> std::result::Result<u8, E> { Ok(v) }
}
de_harness! {
    #[kani::unwind(6)]
    fn probe_any_u8() {
        const N: usize = 3;
        let buf: [u8; N] = kani::any();
        let mut de = mk_de(&buf[..], ty(TypeInner::Nat8), ty(TypeInner::Nat8), cfg_none());
        let r = (&mut de).deserialize_any(U8V);
        kani::cover!(r.is_ok(), "ok");
        std::mem::forget(r);
        std::mem::forget(de);
    }
}

// ---------------- frontier probes (pooled types) ----------------
use crate::types::{Field, Label};
fn fld(id: Label, t: Type) -> Field { Field { id: id.into(), ty: t } }

de_harness! {
    #[kani::unwind(6)]
    fn probe_nat_serde() {
        const N: usize = 3;
        let buf: [u8; N] = kani::any();
        let mut de = mk_de(&buf[..], ty(TypeInner::Nat), ty(TypeInner::Nat), cfg_none());
        let r = <crate::Nat>::deserialize(&mut de);
        kani::cover!(r.is_ok(), "ok");
        std::mem::forget(r);
        std::mem::forget(de);
    }
}
de_harness! {
    #[kani::unwind(6)]
    fn probe_principal() {
        const N: usize = 4;
        let buf: [u8; N] = kani::any();
        let mut de = mk_de(&buf[..], ty(TypeInner::Principal), ty(TypeInner::Principal), cfg_none());
        let r = <crate::Principal>::deserialize(&mut de);
        kani::cover!(r.is_ok(), "ok");
        std::mem::forget(r);
        std::mem::forget(de);
    }
}
#[derive(serde::Deserialize, Debug, PartialEq)]
enum PE { A, B(u8) }
de_harness! {
    #[kani::unwind(6)]
    fn probe_enum() {
        const N: usize = 3;
        let buf: [u8; N] = kani::any();
        let mk = || ty(TypeInner::Variant(vec![
            fld(Label::Named("A".to_string()), ty(TypeInner::Null)),
            fld(Label::Named("B".to_string()), ty(TypeInner::Nat8)),
        ]));
        let mut de = mk_de(&buf[..], mk(), mk(), cfg_none());
        let r = <PE>::deserialize(&mut de);
        kani::cover!(matches!(r, Ok(PE::B(_))), "B");
        kani::cover!(matches!(r, Ok(PE::A)), "A");
        std::mem::forget(r);
        std::mem::forget(de);
    }
}
#[derive(serde::Deserialize, Debug, PartialEq)]
struct PS { a: u8 }
de_harness! {
    #[kani::unwind(6)]
    fn probe_struct_skip() {
        const N: usize = 4;
        let buf: [u8; N] = kani::any();
        // "a" hashes to 97, "b" to 98
        let et = ty(TypeInner::Record(vec![fld(Label::Named("a".to_string()), ty(TypeInner::Nat8))]));
        let wt = ty(TypeInner::Record(vec![
            fld(Label::Named("a".to_string()), ty(TypeInner::Nat8)),
            fld(Label::Named("b".to_string()), ty(TypeInner::Text)),
        ]));
        let mut de = mk_de(&buf[..], wt, et, cfg_none());
        let r = <PS>::deserialize(&mut de);
        kani::cover!(r.is_ok(), "ok");
        kani::cover!(r.is_err(), "err");
        std::mem::forget(r);
        std::mem::forget(de);
    }
}
de_harness! {
    #[kani::unwind(6)]
    fn probe_btreemap_u8() {
        const N: usize = 3;
        let buf: [u8; N] = kani::any();
        kani::assume(buf[0] <= 1);
        let mk = || ty(TypeInner::Vec(ty(TypeInner::Record(vec![
            fld(Label::Id(0), ty(TypeInner::Nat8)),
            fld(Label::Id(1), ty(TypeInner::Nat8)),
        ]))));
        let mut de = mk_de(&buf[..], mk(), mk(), cfg_none());
        let r = <std::collections::BTreeMap<u8, u8>>::deserialize(&mut de);
        kani::cover!(matches!(&r, Ok(m) if m.len() == 1), "one entry");
        std::mem::forget(r);
        std::mem::forget(de);
    }
}
de_harness! {
    #[kani::unwind(6)]
    fn probe_subtype_opt() {
        let env = crate::types::TypeEnv::new();
        let mut gamma = Gamma::default();
        let t1 = ty(TypeInner::Opt(ty(TypeInner::Nat)));
        let t2 = ty(TypeInner::Opt(ty(TypeInner::Int)));
        let r = subtype_with_config(OptReport::Silence, &mut gamma, &env, &t1, &t2);
        kani::cover!(r.is_ok(), "ok");
        std::mem::forget(r);
        std::mem::forget(gamma);
    }
}
de_harness! {
    #[kani::unwind(8)]
    fn probe_header() {
        // DIDL, 0 types, 1 arg, nat8, value
        let b4: u8 = kani::any();
        let b5: u8 = kani::any();
        let msg = [b'D', b'I', b'D', b'L', 0, 1, b4, b5];
        let r = IDLDeserialize::new(&msg);
        kani::cover!(r.is_ok(), "ok");
        kani::cover!(r.is_err(), "err");
        std::mem::forget(r);
    }
}

de_harness! {
    #[kani::unwind(6)]
    fn bis_a_symlen() {
        const N: usize = 4;
        let buf: [u8; N] = kani::any();
        let len: usize = kani::any();
        kani::assume(len <= N);
        let ot: Type = ty(TypeInner::Opt(ty(TypeInner::Nat8)));
        let wt: Type = ty(TypeInner::Opt(ty(TypeInner::Bool)));
        let mut de = mk_de(&buf[..len], wt, ot, cfg_none());
        let r = <Option<u8>>::deserialize(&mut de);
        kani::cover!(matches!(r, Ok(None)), "none");
        std::mem::forget(r);
        std::mem::forget(de);
    }
}
de_harness! {
    #[kani::unwind(6)]
    fn bis_b_cfgany() {
        const N: usize = 4;
        let buf: [u8; N] = kani::any();
        let ot: Type = ty(TypeInner::Opt(ty(TypeInner::Nat8)));
        let wt: Type = ty(TypeInner::Opt(ty(TypeInner::Bool)));
        let mut de = mk_de(&buf[..], wt, ot, cfg_any());
        let r = <Option<u8>>::deserialize(&mut de);
        kani::cover!(matches!(r, Ok(None)), "none");
        std::mem::forget(r);
        std::mem::forget(de);
    }
}
de_harness! {
    #[kani::unwind(6)]
    fn bis_c_cfgclone() {
        const N: usize = 4;
        let buf: [u8; N] = kani::any();
        let ot: Type = ty(TypeInner::Opt(ty(TypeInner::Nat8)));
        let wt: Type = ty(TypeInner::Opt(ty(TypeInner::Bool)));
        let cfg = cfg_none();
        let mut de = mk_de(&buf[..], wt, ot, cfg.clone());
        let r = <Option<u8>>::deserialize(&mut de);
        kani::cover!(matches!(r, Ok(None)), "none");
        std::mem::forget(r);
        std::mem::forget(de);
        std::mem::forget(cfg);
    }
}

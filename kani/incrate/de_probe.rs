use super::common::*;
use super::super::*;
use crate::types::{Type, TypeInner};
use serde::Deserialize;
use serde::de::Deserializer as _;

de_harness! {
    #[kani::unwind(6)]
    fn probe_opt_u8_same() {
        const N: usize = 3;
        let buf: [u8; N] = kani::any();
        let ot: Type = ty(TypeInner::Opt(ty(TypeInner::Nat8)));
        let wt: Type = ty(TypeInner::Opt(ty(TypeInner::Nat8)));
        let mut de = mk_de(&buf[..], wt, ot, cfg_none());
        let r = <Option<u8>>::deserialize(&mut de);
        kani::cover!(matches!(r, Ok(Some(_))), "some");
        kani::cover!(matches!(r, Ok(None)), "none");
        std::mem::forget(r);
        std::mem::forget(de);
    }
}
de_harness! {
    #[kani::unwind(6)]
    fn probe_opt_u8_mismatch() {
        const N: usize = 3;
        let buf: [u8; N] = kani::any();
        let ot: Type = ty(TypeInner::Opt(ty(TypeInner::Nat8)));
        let wt: Type = ty(TypeInner::Opt(ty(TypeInner::Bool)));
        let mut de = mk_de(&buf[..], wt, ot, cfg_none());
        let r = <Option<u8>>::deserialize(&mut de);
        kani::cover!(matches!(r, Ok(None)), "none");
        kani::cover!(r.is_err(), "err");
        std::mem::forget(r);
        std::mem::forget(de);
    }
}
struct U8V;
impl<'de> Visitor<'de> for U8V {
    type Value = u8;
    fn expecting(&self, f: &mut std::fmt::Formatter) -> std::fmt::Result { f.write_str("u8") }
    fn visit_u8<E>(self, v: u8) -> std::result::Result<u8, E> { Ok(v) }
}
de_harness! {
    #[kani::unwind(6)]
    fn probe_any_u8() {
        const N: usize = 3;
        let buf: [u8; N] = kani::any();
        let mut de = mk_de(&buf[..], ty(TypeInner::Nat8), ty(TypeInner::Nat8), cfg_none());
        let r = (&mut de).deserialize_any(U8V);
        kani::cover!(r.is_ok(), "ok");
        std::mem::forget(r);
        std::mem::forget(de);
    }
}

// ---------------- frontier probes (pooled types) ----------------
use crate::types::{Field, Label};
fn fld(id: Label, t: Type) -> Field { Field { id: id.into(), ty: t } }

de_harness! {
    #[kani::unwind(6)]
    fn probe_nat_serde() {
        const N: usize = 3;
        let buf: [u8; N] = kani::any();
        let mut de = mk_de(&buf[..], ty(TypeInner::Nat), ty(TypeInner::Nat), cfg_none());
        let r = <crate::Nat>::deserialize(&mut de);
        kani::cover!(r.is_ok(), "ok");
        std::mem::forget(r);
        std::mem::forget(de);
    }
}
de_harness! {
    #[kani::unwind(6)]
    fn probe_principal() {
        const N: usize = 4;
        let buf: [u8; N] = kani::any();
        let mut de = mk_de(&buf[..], ty(TypeInner::Principal), ty(TypeInner::Principal), cfg_none());
        let r = <crate::Principal>::deserialize(&mut de);
        kani::cover!(r.is_ok(), "ok");
        std::mem::forget(r);
        std::mem::forget(de);
    }
}
#[derive(serde::Deserialize, Debug, PartialEq)]
enum PE { A, B(u8) }
de_harness! {
    #[kani::unwind(6)]
    fn probe_enum() {
        const N: usize = 3;
        let buf: [u8; N] = kani::any();
        let mk = || ty(TypeInner::Variant(vec![
            fld(Label::Named("A".to_string()), ty(TypeInner::Null)),
            fld(Label::Named("B".to_string()), ty(TypeInner::Nat8)),
        ]));
        let mut de = mk_de(&buf[..], mk(), mk(), cfg_none());
        let r = <PE>::deserialize(&mut de);
        kani::cover!(matches!(r, Ok(PE::B(_))), "B");
        kani::cover!(matches!(r, Ok(PE::A)), "A");
        std::mem::forget(r);
        std::mem::forget(de);
    }
}
#[derive(serde::Deserialize, Debug, PartialEq)]
struct PS { a: u8 }
de_harness! {
    #[kani::unwind(6)]
    fn probe_struct_skip() {
        const N: usize = 4;
        let buf: [u8; N] = kani::any();
        // "a" hashes to 97, "b" to 98
        let et = ty(TypeInner::Record(vec![fld(Label::Named("a".to_string()), ty(TypeInner::Nat8))]));
        let wt = ty(TypeInner::Record(vec![
            fld(Label::Named("a".to_string()), ty(TypeInner::Nat8)),
            fld(Label::Named("b".to_string()), ty(TypeInner::Text)),
        ]));
        let mut de = mk_de(&buf[..], wt, et, cfg_none());
        let r = <PS>::deserialize(&mut de);
        kani::cover!(r.is_ok(), "ok");
        kani::cover!(r.is_err(), "err");
        std::mem::forget(r);
        std::mem::forget(de);
    }
}
de_harness! {
    #[kani::unwind(6)]
    fn probe_btreemap_u8() {
        const N: usize = 3;
        let buf: [u8; N] = kani::any();
        kani::assume(buf[0] <= 1);
        let mk = || ty(TypeInner::Vec(ty(TypeInner::Record(vec![
            fld(Label::Id(0), ty(TypeInner::Nat8)),
            fld(Label::Id(1), ty(TypeInner::Nat8)),
        ]))));
        let mut de = mk_de(&buf[..], mk(), mk(), cfg_none());
        let r = <std::collections::BTreeMap<u8, u8>>::deserialize(&mut de);
        kani::cover!(matches!(&r, Ok(m) if m.len() == 1), "one entry");
        std::mem::forget(r);
        std::mem::forget(de);
    }
}
de_harness! {
    #[kani::unwind(6)]
    fn probe_subtype_opt() {
        let env = crate::types::TypeEnv::new();
        let mut gamma = Gamma::default();
        let t1 = ty(TypeInner::Opt(ty(TypeInner::Nat)));
        let t2 = ty(TypeInner::Opt(ty(TypeInner::Int)));
        let r = subtype_with_config(OptReport::Silence, &mut gamma, &env, &t1, &t2);
        kani::cover!(r.is_ok(), "ok");
        std::mem::forget(r);
        std::mem::forget(gamma);
    }
}
de_harness! {
    #[kani::unwind(8)]
    fn probe_header() {
        // DIDL, 0 types, 1 arg, nat8, value
        let b4: u8 = kani::any();
        let b5: u8 = kani::any();
        let msg = [b'D', b'I', b'D', b'L', 0, 1, b4, b5];
        let r = IDLDeserialize::new(&msg);
        kani::cover!(r.is_ok(), "ok");
        kani::cover!(r.is_err(), "err");
        std::mem::forget(r);
    }
}

de_harness! {
    #[kani::unwind(6)]
    fn bis_a_symlen() {
        const N: usize = 4;
        let buf: [u8; N] = kani::any();
        let len: usize = kani::any();
        kani::assume(len <= N);
        let ot: Type = ty(TypeInner::Opt(ty(TypeInner::Nat8)));
        let wt: Type = ty(TypeInner::Opt(ty(TypeInner::Bool)));
        let mut de = mk_de(&buf[..len], wt, ot, cfg_none());
        let r = <Option<u8>>::deserialize(&mut de);
        kani::cover!(matches!(r, Ok(None)), "none");
        std::mem::forget(r);
        std::mem::forget(de);
    }
}
de_harness! {
    #[kani::unwind(6)]
    fn bis_b_cfgany() {
        const N: usize = 4;
        let buf: [u8; N] = kani::any();
        let ot: Type = ty(TypeInner::Opt(ty(TypeInner::Nat8)));
        let wt: Type = ty(TypeInner::Opt(ty(TypeInner::Bool)));
        let mut de = mk_de(&buf[..], wt, ot, cfg_any());
        let r = <Option<u8>>::deserialize(&mut de);
        kani::cover!(matches!(r, Ok(None)), "none");
        std::mem::forget(r);
        std::mem::forget(de);
    }
}
de_harness! {
    #[kani::unwind(6)]
    fn bis_c_cfgclone() {
        const N: usize = 4;
        let buf: [u8; N] = kani::any();
        let ot: Type = ty(TypeInner::Opt(ty(TypeInner::Nat8)));
        let wt: Type = ty(TypeInner::Opt(ty(TypeInner::Bool)));
        let cfg = cfg_none();
        let mut de = mk_de(&buf[..], wt, ot, cfg.clone());
        let r = <Option<u8>>::deserialize(&mut de);
        kani::cover!(matches!(r, Ok(None)), "none");
        std::mem::forget(r);
        std::mem::forget(de);
        std::mem::forget(cfg);
    }
}
struct OneEntryP<K, V>(std::marker::PhantomData<(K, V)>);
impl<'de, K: Deserialize<'de>, V: Deserialize<'de>> Visitor<'de> for OneEntryP<K, V> {
    type Value = Option<(K, V)>;
    fn expecting(&self, f: &mut std::fmt::Formatter) -> std::fmt::Result { f.write_str("map") }
    fn visit_map<A: serde::de::MapAccess<'de>>(self, mut m: A) -> std::result::Result<Self::Value, A::Error> {
        let k = m.next_key::<K>();
        kani::cover!(k.is_err(), "DBG key err");
        kani::cover!(matches!(&k, Ok(None)), "DBG key none");
        match k? {
            None => Ok(None),
            Some(k) => {
                let v = m.next_value::<V>();
                kani::cover!(v.is_err(), "DBG value err");
                let v = v?;
                let k2 = m.next_key::<K>();
                kani::cover!(k2.is_err(), "DBG key2 err");
                kani::cover!(matches!(&k2, Ok(Some(_))), "DBG key2 some");
                match k2? {
                    None => Ok(Some((k, v))),
                    Some(_) => Err(serde::de::Error::custom("more than one entry")),
                }
            }
        }
    }
}
de_harness! {
    #[kani::unwind(8)]
    fn dbg_map_text_u8_concrete() {
        let buf: [u8; 4] = [1, 1, b'k', 200];
        let mk = || ty(TypeInner::Vec(ty(TypeInner::Record(vec![fld(Label::Id(0), ty(TypeInner::Text)), fld(Label::Id(1), ty(TypeInner::Nat8))]))));
        let mut de = mk_de(&buf[..], mk(), mk(), cfg_none());
        let r = (&mut de).deserialize_map(OneEntryP::<&str, u8>(std::marker::PhantomData));
        kani::cover!(r.is_ok(), "DBG ok");
        kani::cover!(r.is_err(), "DBG err");
        kani::cover!(matches!(&r, Ok(None)), "DBG ok none");
        kani::cover!(de.input.position() == 3, "DBG pos 3");
        kani::cover!(de.input.position() == 4, "DBG pos 4");
        kani::cover!(*de.expect_type == TypeInner::Nat8, "DBG expect nat8");
        kani::cover!(*de.wire_type == TypeInner::Nat8, "DBG wire nat8");
        kani::cover!(matches!(de.expect_type.as_ref(), TypeInner::Vec(_)), "DBG expect vec");
        kani::cover!(matches!(&r, Err(Error::Subtype(_))), "DBG subtype err");
        kani::cover!(de.text_fast_path, "DBG text flag still set");
        std::mem::forget(r);
        std::mem::forget(de);
    }
}
de_harness! {
    #[kani::unwind(8)]
    fn dbg_type_via_heap_field() {
        let buf: [u8; 1] = [200];
        let fields = vec![fld(Label::Id(0), ty(TypeInner::Text)), fld(Label::Id(1), ty(TypeInner::Nat8))];
        let ev: Type = match &fields[..] {
            [Field { .. }, Field { ty: ev, .. }] => ev.clone(),
            _ => unreachable!(),
        };
        kani::cover!(*ev == TypeInner::Nat8, "DBG ev is nat8");
        kani::cover!(*ev != TypeInner::Nat8, "DBG ev is not nat8");
        let mut de = mk_de(&buf[..], ev.clone(), ev.clone(), cfg_none());
        let r = <u8>::deserialize(&mut de);
        kani::cover!(r.is_ok(), "DBG ok");
        kani::cover!(r.is_err(), "DBG err");
        std::mem::forget(r);
        std::mem::forget(de);
        std::mem::forget(fields);
    }
}
de_harness! {
    #[kani::unwind(8)]
    fn dbg_map_u8_u8_concrete() {
        let buf: [u8; 3] = [1, 5, 200];
        let mk = || ty(TypeInner::Vec(ty(TypeInner::Record(vec![fld(Label::Id(0), ty(TypeInner::Nat8)), fld(Label::Id(1), ty(TypeInner::Nat8))]))));
        let mut de = mk_de(&buf[..], mk(), mk(), cfg_none());
        let r = (&mut de).deserialize_map(OneEntryP::<u8, u8>(std::marker::PhantomData));
        kani::cover!(r.is_ok(), "DBG ok");
        kani::cover!(r.is_err(), "DBG err");
        kani::cover!(de.input.position() == 2, "DBG pos 2");
        kani::cover!(de.input.position() == 3, "DBG pos 3");
        kani::cover!(*de.expect_type == TypeInner::Nat8, "DBG expect nat8");
        kani::cover!(*de.wire_type == TypeInner::Nat8, "DBG wire nat8");
        kani::cover!(matches!(&r, Err(Error::Subtype(_))), "DBG subtype err");
        std::mem::forget(r);
        std::mem::forget(de);
    }
}
de_harness! {
    #[kani::unwind(8)]
    fn dbg_pooled_record_fields() {
        let m = ty(TypeInner::Vec(ty(TypeInner::Record(vec![fld(Label::Id(0), ty(TypeInner::Text)), fld(Label::Id(1), ty(TypeInner::Nat8))]))));
        if let TypeInner::Vec(e) = m.as_ref() {
            if let TypeInner::Record(ref fs) = e.as_ref() {
                match &fs[..] {
                    [Field { id: i0, ty: ek }, Field { id: i1, ty: ev }] => {
                        kani::cover!(**i0 == Label::Id(0) && **i1 == Label::Id(1), "DBG ids ok");
                        kani::cover!(**ek == TypeInner::Text, "DBG ek text");
                        kani::cover!(**ev == TypeInner::Nat8, "DBG ev nat8");
                        kani::cover!(**ev == TypeInner::Text, "DBG ev text");
                        let pair = (ek.clone(), ev.clone());
                        kani::cover!(*pair.1 == TypeInner::Nat8, "DBG pair.1 nat8");
                        let st = Style::Map { len: 1, expect: pair.clone(), wire: pair, key_text_fast: true };
                        if let Style::Map { expect, .. } = &st {
                            kani::cover!(*expect.1 == TypeInner::Nat8, "DBG style expect.1 nat8");
                            kani::cover!(*expect.0 == TypeInner::Text, "DBG style expect.0 text");
                        }
                        std::mem::forget(st);
                    }
                    _ => { kani::cover!(true, "DBG slice pattern mismatch"); }
                }
            }
        }
        std::mem::forget(m);
    }
}

// Records with positional fields decoded into Rust tuples: the spec's record coercion
// (a wire record with more fields is a subtype: surplus fields are dropped — and their bytes
// consumed; a missing optional field reads as null; a mismatching optional field reads as
// null; a missing or ill-typed required field is an error).
use super::common::*;
use super::super::*;
use crate::types::{Field, Label, Type, TypeInner};
use serde::Deserialize;

fn fld(id: u32, t: Type) -> Field {
    Field { id: Label::Id(id).into(), ty: t }
}
fn opt_of(flag: u8, v: u8) -> Option<Option<u8>> {
    match flag { 0 => Some(None), 1 => Some(Some(v)), _ => None }
}

macro_rules! tuple_h {
    ($name:ident, $T:ty, $n:expr, $wire:expr, $expect:expr, $oracle:expr) => {
        tuple_h!($name, $T, $n, $wire, $expect, $oracle, cfg_any());
    };
    ($name:ident, $T:ty, $n:expr, $wire:expr, $expect:expr, $oracle:expr, $cfg:expr) => {
        de_harness! {
            #[kani::unwind(8)]
            fn $name() {
                const N: usize = $n;
                let buf: [u8; N] = kani::any();
                let cfg = $cfg;
                let unmetered = cfg.decoding_quota.is_none() && cfg.skipping_quota.is_none();
                let mut de = mk_de(&buf[..], $wire, $expect, cfg);
                let r = <$T>::deserialize(&mut de);
                let pos = de.input.position() as usize;
                std::assert!(pos <= N, "cursor beyond the input");
                let exp: Option<($T, usize)> = ($oracle)(&buf);
                match (&r, exp) {
                    (Ok(v), Some((e, c))) => {
                        std::assert!(*v == e, "tuple decoded to a different value than the spec's coercion gives");
                        std::assert!(pos == c, "the record's bytes were not consumed exactly (surplus fields must be skipped)");
                    }
                    (Ok(_), None) => std::assert!(false, "record accepted where the spec's coercion fails"),
                    (Err(_), Some(_)) => std::assert!(!unmetered, "record rejected where the spec's coercion succeeds"),
                    (Err(_), None) => {}
                }
                kani::cover!(r.is_ok() == exp.is_some() && unmetered, "outcome as the spec requires");
                std::mem::forget(r);
                std::mem::forget(de);
            }
        }
    };
}

fn e_u8_optu8() -> Type {
    ty(TypeInner::Record(vec![fld(0, ty(TypeInner::Nat8)), fld(1, ty(TypeInner::Opt(ty(TypeInner::Nat8))))]))
}
fn e_u8_bool() -> Type {
    ty(TypeInner::Record(vec![fld(0, ty(TypeInner::Nat8)), fld(1, ty(TypeInner::Bool))]))
}
// same type
tuple_h!(c08_tuple_same, (u8, Option<u8>), 3, e_u8_optu8(), e_u8_optu8(),
    |b: &[u8; 3]| opt_of(b[1], b[2]).map(|o| ((b[0], o), if b[1] == 0 { 2 } else { 3 })));
// optional field missing on the wire
tuple_h!(c08_tuple_missing_opt, (u8, Option<u8>), 2, ty(TypeInner::Record(vec![fld(0, ty(TypeInner::Nat8))])), e_u8_optu8(),
    |b: &[u8; 2]| Some(((b[0], None), 1)));
// optional field at a mismatching wire type: value skipped, null
tuple_h!(c08_tuple_opt_mismatch, (u8, Option<u8>), 3,
    ty(TypeInner::Record(vec![fld(0, ty(TypeInner::Nat8)), fld(1, ty(TypeInner::Nat16))])), e_u8_optu8(),
    |b: &[u8; 3]| Some(((b[0], None), 3)));
// required field at the wrong type
tuple_h!(c08_tuple_wrong_type, (u8, Option<u8>), 3,
    ty(TypeInner::Record(vec![fld(0, ty(TypeInner::Nat16)), fld(1, ty(TypeInner::Opt(ty(TypeInner::Nat8))))])), e_u8_optu8(),
    |_b: &[u8; 3]| None);
// surplus wire field (record {0;1;2} <: record {0;1}): dropped, its bytes consumed
// (unmetered, one-byte surplus field: with symbolic quotas and a nat16 the repaired path - which now really
//  skips the field through deserialize_ignored_any - ran out of memory at 28 GB)
tuple_h!(c08_tuple_surplus, (u8, bool), 3,
    ty(TypeInner::Record(vec![fld(0, ty(TypeInner::Nat8)), fld(1, ty(TypeInner::Bool)), fld(2, ty(TypeInner::Nat8))])), e_u8_bool(),
    |b: &[u8; 3]| if b[1] <= 1 { Some(((b[0], b[1] == 1), 3)) } else { None }, cfg_none());
// required field missing
tuple_h!(c08_tuple_missing_required, (u8, bool), 2, ty(TypeInner::Record(vec![fld(0, ty(TypeInner::Nat8))])), e_u8_bool(),
    |_b: &[u8; 2]| None);

// C08 / C06: the specialised decoding paths — borrowed byte slices, owned byte buffers,
// primitive vectors (bulk little-endian path), text-keyed maps, bounded vectors — must not
// accept a wire type the generic rules reject, must read values at the right type, and
// bounded vectors accept exactly the vectors within their limits.
// One concrete (pooled) wire type per harness; value bytes symbolic.
use super::common::*;
use super::super::*;
use crate::types::{Field, Label, Type, TypeInner};
use serde::de::{MapAccess, SeqAccess};
use serde::Deserialize;

fn fld(id: Label, t: Type) -> Field {
    Field { id: id.into(), ty: t }
}
fn t_vec(e: TypeInner) -> Type {
    ty(TypeInner::Vec(ty(e)))
}

// ------------------------------------------------------------------ byte slices
// expected `vec nat8`; the spec accepts only wire `vec nat8` there.
macro_rules! bytes_h {
    ($name:ident, $T:ty, $wire:expr, $accept:expr, $n:expr, $asb:expr) => {
        de_harness! {
            #[kani::unwind(8)]
            fn $name() {
                const N: usize = $n;
                let mut buf: [u8; N] = kani::any();
                kani::assume(buf[0] as usize <= N); // one-byte length prefix (padded prefixes: text harnesses)
                let cfg = cfg_any();
                let unmetered = cfg.decoding_quota.is_none();
                let mut de = mk_de(&buf[..], $wire, t_vec(TypeInner::Nat8), cfg);
                let r = <$T>::deserialize(&mut de);
                let pos = de.input.position() as usize;
                std::assert!(pos <= N, "cursor beyond the input");
                let cnt = buf[0] as usize;
                match &r {
                    Ok(v) => {
                        std::assert!($accept, "byte buffer accepted a wire type that the generic rules reject");
                        let b: &[u8] = ($asb)(v);
                        std::assert!(b.len() == cnt && cnt + 1 <= N, "byte buffer length differs from the length prefix");
                        let mut i = 0;
                        while i < N {
                            if i < cnt {
                                std::assert!(b[i] == buf[1 + i], "byte buffer content differs from the wire bytes");
                            }
                            i += 1;
                        }
                        std::assert!(pos == 1 + cnt, "wrong number of bytes consumed");
                    }
                    Err(_) => {
                        if unmetered && $accept {
                            std::assert!(cnt + 1 > N, "well-formed blob rejected");
                        }
                    }
                }
                kani::cover!(r.is_ok() == $accept && cnt >= 2 && cnt + 1 <= N, "outcome as the generic rules require");
                std::mem::forget(r);
                std::mem::forget(de);
            }
        }
    };
}
fn as_b<'a>(v: &'a &'a [u8]) -> &'a [u8] { v }
fn as_bb(v: &serde_bytes::ByteBuf) -> &[u8] { v.as_ref() }
bytes_h!(c08_bytes_w_blob, &[u8], t_vec(TypeInner::Nat8), true, 4, as_b);
bytes_h!(c08_bytes_w_text, &[u8], ty(TypeInner::Text), false, 4, as_b);
bytes_h!(c08_bytes_w_vec_int8, &[u8], t_vec(TypeInner::Int8), false, 4, as_b);
bytes_h!(c08_bytes_w_vec_bool, &[u8], t_vec(TypeInner::Bool), false, 4, as_b);
bytes_h!(c08_bytes_w_nat8, &[u8], ty(TypeInner::Nat8), false, 4, as_b);
bytes_h!(c08_bytebuf_w_blob, serde_bytes::ByteBuf, t_vec(TypeInner::Nat8), true, 4, as_bb);
bytes_h!(c08_bytebuf_w_text, serde_bytes::ByteBuf, ty(TypeInner::Text), false, 4, as_bb);
bytes_h!(c08_bytebuf_w_vec_int8, serde_bytes::ByteBuf, t_vec(TypeInner::Int8), false, 4, as_bb);
bytes_h!(c08_bytebuf_w_vec_bool, serde_bytes::ByteBuf, t_vec(TypeInner::Bool), false, 4, as_bb);

// ------------------------------------------------------------------ primitive vectors
// Vec<u16> at expected `vec nat16`, element count fixed to 2 (a constant length byte, so
// serde's Vec::with_capacity is concrete); wire element type per harness.
macro_rules! vec_u16_h {
    ($name:ident, $wire_elem:expr, $accept:expr) => {
        de_harness! {
            #[kani::unwind(8)]
            fn $name() {
                const N: usize = 6;
                let mut buf: [u8; N] = kani::any();
                buf[0] = 2;
                let cfg = cfg_any();
                let unmetered = cfg.decoding_quota.is_none();
                let dq0 = cfg.decoding_quota;
                let mut de = mk_de(&buf[..], t_vec($wire_elem), t_vec(TypeInner::Nat16), cfg);
                let r = <Vec<u16>>::deserialize(&mut de);
                let pos = de.input.position() as usize;
                std::assert!(pos <= N, "cursor beyond the input");
                match &r {
                    Ok(v) => {
                        std::assert!($accept, "vec nat16 accepted a wire element type the generic rules reject");
                        std::assert!(v.len() == 2, "wrong element count");
                        std::assert!(v[0] == u16::from_le_bytes([buf[1], buf[2]]) && v[1] == u16::from_le_bytes([buf[3], buf[4]]),
                            "elements differ from the little-endian wire bytes");
                        std::assert!(pos == 5, "wrong number of bytes consumed");
                        if let (Some(a), Some(b)) = (dq0, de.config.decoding_quota) {
                            std::assert!(a - b >= 2, "vector elements were not charged");
                        }
                    }
                    Err(_) => {
                        if unmetered {
                            std::assert!(!$accept, "well-formed vec nat16 rejected");
                        }
                    }
                }
                kani::cover!(r.is_ok() == $accept && unmetered, "outcome as the generic rules require");
                std::mem::forget(r);
                std::mem::forget(de);
            }
        }
    };
}
vec_u16_h!(c08_vec_u16_w_nat16, TypeInner::Nat16, true);
vec_u16_h!(c08_vec_u16_w_int16, TypeInner::Int16, false);
vec_u16_h!(c08_vec_u16_w_nat8, TypeInner::Nat8, false);
vec_u16_h!(c08_vec_u16_w_nat32, TypeInner::Nat32, false);
vec_u16_h!(c08_vec_u16_w_bool, TypeInner::Bool, false);

// ---- hostile element counts: a non-allocating visitor, symbolic LEB length prefix
struct CountU16;
impl<'de> Visitor<'de> for CountU16 {
    type Value = (usize, u16);
    fn expecting(&self, f: &mut std::fmt::Formatter) -> std::fmt::Result { f.write_str("seq") }
    fn visit_seq<A: SeqAccess<'de>>(self, mut seq: A) -> std::result::Result<(usize, u16), A::Error> {
        let mut n = 0usize;
        let mut last = 0u16;
        while let Some(x) = seq.next_element::<u16>()? {
            n += 1;
            last = x;
        }
        Ok((n, last))
    }
}
struct CountUnit;
impl<'de> Visitor<'de> for CountUnit {
    type Value = usize;
    fn expecting(&self, f: &mut std::fmt::Formatter) -> std::fmt::Result { f.write_str("seq") }
    fn visit_seq<A: SeqAccess<'de>>(self, mut seq: A) -> std::result::Result<usize, A::Error> {
        let mut n = 0usize;
        while let Some(()) = seq.next_element::<()>()? {
            n += 1;
        }
        Ok(n)
    }
}
include!("/verif/kani/ext/src/oracle.rs");
de_harness! {
    #[kani::unwind(12)]
    fn c06_vec_u16_hostile_len() {
        use serde::de::Deserializer as _;
        const N: usize = 10;
        let buf: [u8; N] = kani::any();
        let mut de = mk_de(&buf[..], t_vec(TypeInner::Nat16), t_vec(TypeInner::Nat16), cfg_none());
        let r = (&mut de).deserialize_seq(CountU16);
        let pos = de.input.position() as usize;
        std::assert!(pos <= N, "cursor beyond the input");
        match ref_leb_u128(&buf, N) {
            Leb::Val { v, end } => {
                let room = ((N - end) / 2) as u128;
                match &r {
                    Ok((n, _)) => {
                        std::assert!(v <= room, "vector longer than the remaining input accepted");
                        std::assert!(*n as u128 == v && pos == end + 2 * *n, "element count / consumption differ from the length prefix");
                    }
                    // completeness only for prefixes the decoder's 63-bit length reader is documented to
                    // take (terminator within 9 bytes): rejecting a longer padded prefix is not forbidden
                    Err(_) => std::assert!(v > room || end > 9, "vector that fits the input rejected"),
                }
            }
            _ => std::assert!(r.is_err(), "unterminated / oversized length prefix accepted"),
        }
        kani::cover!(matches!(&r, Ok((3, _))), "three elements decoded");
        kani::cover!(r.is_err() && buf[0] == 0xff && buf[8] == 0x7f, "huge length rejected");
        std::mem::forget(r);
        std::mem::forget(de);
    }
}
// The kernel shared by every length-prefixed value (text, blob, byte buffers, skipped blobs): read the LEB128
// length, charge it, borrow that many bytes. Driven as a unit on an arbitrary buffer and start offset so that
// hostile prefixes (padded, 2^63.., > 2^64) are decided in seconds instead of through the whole text visitor.
macro_rules! len_read_h {
    ($name:ident, $n:expr, $unw:expr) => {
        de_harness! {
            #[kani::unwind($unw)]
            fn $name() {
                const N: usize = $n;
                let buf: [u8; N] = kani::any();
                let start: usize = kani::any();
                kani::assume(start <= N);
                let cfg = cfg_any();
                let q0 = cfg.decoding_quota;
                let mut de = mk_de(&buf[..], ty(TypeInner::Text), ty(TypeInner::Text), cfg);
                de.input.set_position(start as u64);
                let r: Result<&[u8]> = (|| {
                    let len = de.read_len()?;
                    de.add_cost(len.saturating_add(1))?;
                    de.borrow_bytes(len)
                })();
                let pos = de.input.position() as usize;
                std::assert!(pos <= N, "cursor beyond the input");
                let mut tail = [0u8; N];
                let mut i = 0;
                while i < N {
                    if start + i < N {
                        tail[i] = buf[start + i];
                    }
                    i += 1;
                }
                match ref_leb_u128(&tail, N - start) {
                    Leb::Val { v, end } => {
                        let room = (N - start - end) as u128;
                        match &r {
                            Ok(s) => {
                                std::assert!(v <= room, "length beyond the remaining input accepted");
                                std::assert!(s.len() as u128 == v, "borrowed slice length differs from the prefix");
                                std::assert!(pos == start + end + s.len(), "consumption differs from prefix + payload");
                                std::assert!(s.as_ptr() == buf[start + end..].as_ptr(), "borrowed slice starts elsewhere");
                                if let (Some(a), Some(b)) = (q0, de.config.decoding_quota) {
                                    std::assert!(a > b && a - b >= s.len(), "payload bytes not charged");
                                }
                            }
                            // completeness for prefixes within the documented 63-bit / 9-byte reader
                            Err(_) => std::assert!(v > room || end > 9 || q0.is_some(), "length-prefixed value that fits rejected"),
                        }
                    }
                    _ => std::assert!(r.is_err(), "unterminated / oversized length prefix accepted"),
                }
                kani::cover!(matches!(&r, Ok(s) if s.len() == 2), "two bytes borrowed");
                kani::cover!(r.is_err() && start == 0 && buf[0] == 0xff && buf[8] == 0xff && buf[9] == 0x01, "length 2^63.. rejected");
                std::mem::forget(r);
                std::mem::forget(de);
            }
        }
    };
}
len_read_h!(c06_len_prefixed_read_eq12, 12, 14);
len_read_h!(c06_len_prefixed_read_eq16, 16, 18);

de_harness! {
    #[kani::unwind(12)]
    fn c06_vec_null_bomb() {
        use serde::de::Deserializer as _;
        // zero-sized elements: the count is not bounded by the input, only the quota stops it
        const N: usize = 10;
        let buf: [u8; N] = kani::any();
        let q: usize = kani::any();
        kani::assume(q <= 20);
        let mut cfg = cfg_none();
        cfg.decoding_quota = Some(q);
        let mut de = mk_de(&buf[..], t_vec(TypeInner::Null), t_vec(TypeInner::Null), cfg);
        let r = (&mut de).deserialize_seq(CountUnit);
        match &r {
            Ok(n) => {
                // every zero-sized element costs at least one unit: n <= q
                std::assert!(*n <= q, "zero-sized elements decoded for free");
                match ref_leb_u128(&buf, N) {
                    Leb::Val { v, .. } => std::assert!(*n as u128 == v, "element count differs from the length prefix"),
                    _ => std::assert!(false, "malformed length accepted"),
                }
            }
            Err(_) => {}
        }
        kani::cover!(matches!(&r, Ok(2)), "two nulls decoded within quota");
        kani::cover!(r.is_err() && buf[0] == 100, "space bomb stopped by the quota");
        std::mem::forget(r);
        std::mem::forget(de);
    }
}

// ------------------------------------------------------------------ maps (one entry)
// expected vec record {0: K; 1: V}; the entry is pulled through the real MapAccess of
// `Compound` by a light-weight visitor (no std container).
struct OneEntry<K, V>(std::marker::PhantomData<(K, V)>);
impl<'de, K: Deserialize<'de>, V: Deserialize<'de>> Visitor<'de> for OneEntry<K, V> {
    type Value = Option<(K, V)>;
    fn expecting(&self, f: &mut std::fmt::Formatter) -> std::fmt::Result { f.write_str("map") }
    fn visit_map<A: MapAccess<'de>>(self, mut m: A) -> std::result::Result<Self::Value, A::Error> {
        match m.next_key::<K>()? {
            None => Ok(None),
            Some(k) => {
                let v = m.next_value::<V>()?;
                match m.next_key::<K>()? {
                    None => Ok(Some((k, v))),
                    Some(_) => Err(serde::de::Error::custom("more than one entry")),
                }
            }
        }
    }
}
fn t_map(k: Type, v: Type) -> Type {
    ty(TypeInner::Vec(ty(TypeInner::Record(vec![fld(Label::Id(0), k), fld(Label::Id(1), v)]))))
}
/// reference: text at buf[p..]: one-byte length prefix + UTF-8; returns (start, len)
fn ref_text1(buf: &[u8], p: usize, n: usize) -> Option<(usize, usize)> {
    if p >= n || buf[p] >= 0x80 { return None; }
    let l = buf[p] as usize;
    if p + 1 + l > n { return None; }
    if std::str::from_utf8(&buf[p + 1..p + 1 + l]).is_ok() { Some((p + 1, l)) } else { None }
}
macro_rules! map_text_text_h {
    ($name:ident, $wk:expr, $wv:expr, $accept:expr) => {
        de_harness! {
            #[kani::unwind(8)]
            fn $name() {
                use serde::de::Deserializer as _;
                // one entry; key = the text "k"; value = length byte <= 1 + one symbolic payload byte
                const N: usize = 5;
                let mut buf: [u8; N] = kani::any();
                buf[0] = 1;
                buf[1] = 1;
                buf[2] = b'k';
                kani::assume(buf[3] <= 1);
                let cfg = cfg_any();
                let unmetered = cfg.decoding_quota.is_none();
                let mut de = mk_de(&buf[..], t_map($wk, $wv), t_map(ty(TypeInner::Text), ty(TypeInner::Text)), cfg);
                let r = (&mut de).deserialize_map(OneEntry::<&str, &str>(std::marker::PhantomData));
                let pos = de.input.position() as usize;
                std::assert!(pos <= N, "cursor beyond the input");
                let vl = buf[3] as usize;
                let v_ok = std::str::from_utf8(&buf[4..4 + vl]).is_ok();
                match &r {
                    Ok(Some((k, v))) => {
                        std::assert!($accept, "map<text,text> accepted a wire entry type the generic rules reject");
                        std::assert!(k.len() == 1 && k.as_bytes()[0] == buf[2], "key differs from the wire text");
                        std::assert!(v_ok && v.len() == vl && pos == 4 + vl, "value differs from the wire text");
                    }
                    Ok(None) => std::assert!(false, "entry count 1 produced no entry"),
                    Err(_) => {
                        if unmetered && $accept {
                            std::assert!(!v_ok, "well-formed map entry rejected");
                        }
                    }
                }
                kani::cover!(r.is_ok() == $accept && vl == 1 && v_ok && unmetered, "outcome as the generic rules require");
                std::mem::forget(r);
                std::mem::forget(de);
            }
        }
    };
}
map_text_text_h!(c08_map_tt_w_text_text, ty(TypeInner::Text), ty(TypeInner::Text), true);
map_text_text_h!(c08_map_tt_w_text_blob, ty(TypeInner::Text), t_vec(TypeInner::Nat8), false);
map_text_text_h!(c08_map_tt_w_text_nat8, ty(TypeInner::Text), ty(TypeInner::Nat8), false);
map_text_text_h!(c08_map_tt_w_blob_text, t_vec(TypeInner::Nat8), ty(TypeInner::Text), false);
map_text_text_h!(c08_map_tt_w_text_vecint8, ty(TypeInner::Text), t_vec(TypeInner::Int8), false);

// map<text, nat8>: the value must be read at nat8 even though the key used the text fast path
de_harness! {
    #[kani::unwind(8)]
    fn c08_map_text_u8() {
        use serde::de::Deserializer as _;
        let mut buf: [u8; 4] = kani::any();
        buf[0] = 1;
        buf[1] = 1;
        buf[2] = b'k';
        let mut de = mk_de(&buf[..], t_map(ty(TypeInner::Text), ty(TypeInner::Nat8)),
                           t_map(ty(TypeInner::Text), ty(TypeInner::Nat8)), cfg_none());
        let r = (&mut de).deserialize_map(OneEntry::<&str, u8>(std::marker::PhantomData));
        let pos = de.input.position() as usize;
        match &r {
            Ok(Some((k, v))) => std::assert!(k.len() == 1 && k.as_bytes()[0] == b'k' && *v == buf[3] && pos == 4, "entry differs from the wire bytes"),
            _ => std::assert!(false, "well-formed map<text,nat8> entry rejected"),
        }
        kani::cover!(matches!(&r, Ok(Some((_, 200)))), "entry decoded");
        std::mem::forget(r);
        std::mem::forget(de);
    }
}

// ------------------------------------------------------------------ bounded vectors
use crate::types::bounded_vec::BoundedVec;
// BoundedVec<MAX_LEN, MAX_TOTAL, MAX_ELEM, u8>: element data size is 1
macro_rules! bvec_u8_h {
    ($name:ident, $ml:expr, $mt:expr, $me:expr) => {
        de_harness! {
            #[kani::unwind(9)]
            fn $name() {
                const N: usize = 7;
                let buf: [u8; N] = kani::any();
                kani::assume(buf[0] < 0x80);
                let mut de = mk_de(&buf[..], t_vec(TypeInner::Nat8), t_vec(TypeInner::Nat8), cfg_none());
                let r = <BoundedVec<$ml, $mt, $me, u8>>::deserialize(&mut de);
                let cnt = buf[0] as usize;
                let fits_input = cnt + 1 <= N;
                let within = cnt <= $ml && cnt * 1 <= $mt && (cnt == 0 || 1 <= $me);
                match &r {
                    Ok(v) => {
                        std::assert!(fits_input && within, "bounded vector accepted a vector outside its limits");
                        std::assert!(v.get().len() == cnt, "wrong element count");
                    }
                    Err(_) => std::assert!(!(fits_input && within), "bounded vector rejected a vector within its limits"),
                }
                kani::cover!(r.is_ok() && cnt == ($ml).min($mt), "vector exactly at the limit accepted");
                kani::cover!(r.is_err() && fits_input, "vector over the limit rejected");
                std::mem::forget(r);
                std::mem::forget(de);
            }
        }
    };
}
bvec_u8_h!(c08_bvec_u8_len3_total8, 3, 8, 1);
bvec_u8_h!(c08_bvec_u8_len8_total3, 8, 3, 1);
// u64 elements (data size 8): total limit reached exactly by 2 elements
de_harness! {
    #[kani::unwind(9)]
    fn c08_bvec_u64_total16() {
        const N: usize = 25;
        let buf: [u8; N] = kani::any();
        kani::assume(buf[0] <= 3);
        let mut de = mk_de(&buf[..], t_vec(TypeInner::Nat64), t_vec(TypeInner::Nat64), cfg_none());
        let r = <BoundedVec<4, 16, 8, u64>>::deserialize(&mut de);
        let cnt = buf[0] as usize;
        match &r {
            Ok(v) => {
                std::assert!(cnt * 8 <= 16, "bounded vector accepted more than its total data size");
                std::assert!(v.get().len() == cnt, "wrong element count");
            }
            Err(_) => std::assert!(cnt * 8 > 16, "bounded vector rejected a vector whose total size is within (or exactly at) the limit"),
        }
        kani::cover!(r.is_ok() && cnt == 2, "total size exactly at the limit accepted");
        kani::cover!(r.is_err() && cnt == 3, "over the total limit rejected");
        std::mem::forget(r);
        std::mem::forget(de);
    }
}

// ------------------------------------------------------------------ maps with big-number keys / values
// (the big-number fast-path flag of deserialize_map must apply to the value only)
fn sleb1(b: u8) -> i128 { if b & 0x40 != 0 { (b as i128) - 128 } else { b as i128 } }
de_harness_bnrec! {
    #[kani::unwind(8)]
    fn c08_map_int_nat() {
        use serde::de::Deserializer as _;
        // map<int,nat>, one entry, key and value one (S)LEB128 byte each
        let mut buf: [u8; 3] = kani::any();
        buf[0] = 1;
        kani::assume(buf[1] < 0x80 && buf[2] < 0x80);
        let mut de = mk_de(&buf[..], t_map(ty(TypeInner::Int), ty(TypeInner::Nat)), t_map(ty(TypeInner::Int), ty(TypeInner::Nat)), cfg_none());
        let r = (&mut de).deserialize_map(OneEntry::<crate::Int, crate::Nat>(std::marker::PhantomData));
        std::assert!(matches!(&r, Ok(Some(_))), "map<int,nat> failed to decode its own entry");
        std::assert!(de.input.position() == 3, "entry not consumed exactly");
        unsafe {
            std::assert!(BN_LOG_N == 2, "expected exactly two numbers to be materialised");
            std::assert!(BN_LOG[0] == sleb1(buf[1]), "map key (int) decoded to a different number than its SLEB128 bytes denote");
            std::assert!(BN_LOG[1] == buf[2] as i128, "map value (nat) decoded to a different number than its LEB128 bytes denote");
        }
        kani::cover!(buf[1] >= 0x40, "negative key");
        std::mem::forget(r);
        std::mem::forget(de);
    }
}
de_harness_bnrec! {
    #[kani::unwind(8)]
    fn c08_map_u32_int() {
        use serde::de::Deserializer as _;
        // map<nat32,int>, one entry
        let mut buf: [u8; 6] = kani::any();
        buf[0] = 1;
        kani::assume(buf[5] < 0x80);
        let mut de = mk_de(&buf[..], t_map(ty(TypeInner::Nat32), ty(TypeInner::Int)), t_map(ty(TypeInner::Nat32), ty(TypeInner::Int)), cfg_none());
        let r = (&mut de).deserialize_map(OneEntry::<u32, crate::Int>(std::marker::PhantomData));
        match &r {
            Ok(Some((k, _))) => {
                std::assert!(*k == u32::from_le_bytes([buf[1], buf[2], buf[3], buf[4]]), "key differs from the wire bytes");
                unsafe { std::assert!(BN_LOG_N == 1 && BN_LOG[0] == sleb1(buf[5]), "map value (int) decoded to a different number"); }
            }
            _ => std::assert!(false, "map<nat32,int> failed to decode its own entry"),
        }
        kani::cover!(r.is_ok() && buf[5] >= 0x40, "negative value decoded");
        std::mem::forget(r);
        std::mem::forget(de);
    }
}
de_harness_bnrec! {
    #[kani::unwind(8)]
    fn c08_map_text_nat() {
        use serde::de::Deserializer as _;
        // map<text,nat>: both fast paths at once
        let mut buf: [u8; 4] = kani::any();
        buf[0] = 1;
        buf[1] = 1; // key: one byte of text
        kani::assume(buf[2] < 0x80 && buf[3] < 0x80);
        let mut de = mk_de(&buf[..], t_map(ty(TypeInner::Text), ty(TypeInner::Nat)), t_map(ty(TypeInner::Text), ty(TypeInner::Nat)), cfg_none());
        let r = (&mut de).deserialize_map(OneEntry::<&str, crate::Nat>(std::marker::PhantomData));
        match &r {
            Ok(Some((k, _))) => {
                std::assert!(k.len() == 1 && k.as_bytes()[0] == buf[2], "key differs from the wire text");
                unsafe { std::assert!(BN_LOG_N == 1 && BN_LOG[0] == buf[3] as i128, "map value (nat) decoded to a different number"); }
            }
            _ => std::assert!(false, "map<text,nat> failed to decode its own entry"),
        }
        kani::cover!(r.is_ok(), "entry decoded");
        std::mem::forget(r);
        std::mem::forget(de);
    }
}

// C03 (value bytes) + C01 (native round trip), in one harness per Rust type:
//   v: T fully symbolic
//   1. ref = reference encoding of v written from spec/Candid.md (M rules) into a stack array
//   2. real = v.idl_serialize(ValueSerializer)         assert real == ref        (C03)
//   3. decode ref at wire = expected = T's Candid type   assert Ok(v') && v' == v  (C01)
//      and every byte consumed.
// Decoding starts from the reference bytes (a stack array whose length bytes are
// constants) rather than from the serializer's heap Vec: CBMC cannot constant-fold reads
// from heap buffers, and serde's Vec visitor would otherwise call
// Vec::with_capacity(symbolic). Since step 2 asserts equality, decode(encode(v)) == v follows.
use super::common::*;
use super::super::*;
use crate::ser::ValueSerializer;
use crate::types::{Field, Label, Type, TypeInner};
use crate::CandidType;
use serde::Deserialize;

pub const RN: usize = 24;
pub struct Out {
    pub b: [u8; RN],
    pub n: usize,
}
impl Out {
    pub fn new() -> Self {
        Out { b: [0; RN], n: 0 }
    }
    pub fn put(&mut self, x: u8) {
        self.b[self.n] = x;
        self.n += 1;
    }
    pub fn le(&mut self, v: u64, width: usize) {
        let mut i = 0;
        while i < 8 {
            if i < width {
                self.put((v >> (8 * i)) as u8);
            }
            i += 1;
        }
    }
    /// minimal unsigned LEB128
    pub fn leb(&mut self, mut v: u64) {
        loop {
            let g = (v % 128) as u8;
            v /= 128;
            if v == 0 {
                self.put(g);
                return;
            }
            self.put(g | 0x80);
        }
    }
}

fn fld(id: Label, t: Type) -> Field {
    Field { id: id.into(), ty: t }
}

macro_rules! rt_h {
    ($name:ident, $unw:expr, $T:ty, $mkval:expr, $mkty:expr, $refenc:expr, $eq:expr) => {
        rt_h!($name, $unw, $T, $mkval, $mkty, $refenc, $eq, de_harness);
    };
    ($name:ident, $unw:expr, $T:ty, $mkval:expr, $mkty:expr, $refenc:expr, $eq:expr, $mac:ident) => {
        $mac! {
            #[kani::unwind($unw)]
            fn $name() {
                let v: $T = $mkval;
                let mut o = Out::new();
                ($refenc)(&v, &mut o);
                // C03: the real serializer emits exactly the reference bytes
                let mut ser = ValueSerializer::new();
                let sr = v.idl_serialize(&mut ser);
                std::assert!(sr.is_ok(), "serializer failed on a valid value");
                let real = ser.get_result();
                std::assert!(real.len() == o.n, "encoded length differs from the specification's encoding");
                let mut i = 0;
                while i < RN {
                    if i < o.n {
                        std::assert!(real[i] == o.b[i], "encoded byte differs from the specification's encoding");
                    }
                    i += 1;
                }
                // C01: decoding those bytes at the same type gives back v and consumes everything
                let n = o.n;
                let mut de = mk_de(&o.b[..], $mkty, $mkty, cfg_none()); // fixed-length slice (zero padded); consumption asserted below
                let r = <$T>::deserialize(&mut de);
                match &r {
                    Ok(v2) => {
                        std::assert!(($eq)(&v, v2), "round trip returned a different value");
                        std::assert!(de.input.position() as usize == n, "round trip left unread input");
                    }
                    Err(_) => std::assert!(false, "decoding the encoder's own output failed"),
                }
                kani::cover!(r.is_ok(), "round trip completed");
                std::mem::forget(r);
                std::mem::forget(de);
                std::mem::forget(ser);
                std::mem::forget(v);
            }
        }
    };
}

// ---- primitives
rt_h!(c01_rt_bool, 26, bool, kani::any(), ty(TypeInner::Bool), |v: &bool, o: &mut Out| o.put(*v as u8), |a: &bool, b: &bool| a == b);
rt_h!(c01_rt_u8, 26, u8, kani::any(), ty(TypeInner::Nat8), |v: &u8, o: &mut Out| o.le(*v as u64, 1), |a: &u8, b: &u8| a == b);
rt_h!(c01_rt_u16, 26, u16, kani::any(), ty(TypeInner::Nat16), |v: &u16, o: &mut Out| o.le(*v as u64, 2), |a: &u16, b: &u16| a == b);
rt_h!(c01_rt_u32, 26, u32, kani::any(), ty(TypeInner::Nat32), |v: &u32, o: &mut Out| o.le(*v as u64, 4), |a: &u32, b: &u32| a == b);
rt_h!(c01_rt_u64, 26, u64, kani::any(), ty(TypeInner::Nat64), |v: &u64, o: &mut Out| o.le(*v, 8), |a: &u64, b: &u64| a == b);
rt_h!(c01_rt_i8, 26, i8, kani::any(), ty(TypeInner::Int8), |v: &i8, o: &mut Out| o.le(*v as u8 as u64, 1), |a: &i8, b: &i8| a == b);
rt_h!(c01_rt_i16, 26, i16, kani::any(), ty(TypeInner::Int16), |v: &i16, o: &mut Out| o.le(*v as u16 as u64, 2), |a: &i16, b: &i16| a == b);
rt_h!(c01_rt_i32, 26, i32, kani::any(), ty(TypeInner::Int32), |v: &i32, o: &mut Out| o.le(*v as u32 as u64, 4), |a: &i32, b: &i32| a == b);
rt_h!(c01_rt_i64, 26, i64, kani::any(), ty(TypeInner::Int64), |v: &i64, o: &mut Out| o.le(*v as u64, 8), |a: &i64, b: &i64| a == b);
rt_h!(c01_rt_f32, 26, f32, kani::any(), ty(TypeInner::Float32), |v: &f32, o: &mut Out| o.le(v.to_bits() as u64, 4), |a: &f32, b: &f32| a.to_bits() == b.to_bits());
rt_h!(c01_rt_f64, 26, f64, kani::any(), ty(TypeInner::Float64), |v: &f64, o: &mut Out| o.le(v.to_bits(), 8), |a: &f64, b: &f64| a.to_bits() == b.to_bits());
rt_h!(c01_rt_unit, 26, (), (), ty(TypeInner::Null), |_v: &(), _o: &mut Out| {}, |_a: &(), _b: &()| true);

// ---- text: fixed byte length per harness, ASCII + one 2-byte scalar variant
fn mk_string2() -> String {
    let c: [u8; 2] = kani::any();
    kani::assume(std::str::from_utf8(&c).is_ok());
    String::from_utf8(vec![c[0], c[1]]).unwrap()
}
fn mk_ascii2() -> String {
    // ASCII only: valid UTF-8 by construction (no from_utf8 over symbolic bytes in the harness itself)
    let c: [u8; 2] = kani::any();
    kani::assume(c[0] < 0x80 && c[1] < 0x80);
    let mut s = String::with_capacity(2);
    s.push(c[0] as char);
    s.push(c[1] as char);
    s
}
fn mk_string3() -> String {
    let c: [u8; 3] = kani::any();
    kani::assume(std::str::from_utf8(&c).is_ok());
    String::from_utf8(vec![c[0], c[1], c[2]]).unwrap()
}
fn enc_str(s: &str, o: &mut Out) {
    let b = s.as_bytes();
    o.leb(b.len() as u64);
    let mut i = 0;
    while i < 4 {
        if i < b.len() {
            o.put(b[i]);
        }
        i += 1;
    }
}
rt_h!(c01_rt_string2, 26, String, mk_string2(), ty(TypeInner::Text), |v: &String, o: &mut Out| enc_str(v, o), |a: &String, b: &String| a == b);
rt_h!(c01_rt_string3, 26, String, mk_string3(), ty(TypeInner::Text), |v: &String, o: &mut Out| enc_str(v, o), |a: &String, b: &String| a == b);
rt_h!(c01_rt_ascii2, 26, String, mk_ascii2(), ty(TypeInner::Text), |v: &String, o: &mut Out| enc_str(v, o), |a: &String, b: &String| a == b);
rt_h!(c01_rt_string0, 26, String, String::new(), ty(TypeInner::Text), |v: &String, o: &mut Out| enc_str(v, o), |a: &String, b: &String| a == b);

// ---- options
fn enc_opt_u8(v: &Option<u8>, o: &mut Out) {
    match v {
        None => o.put(0),
        Some(x) => {
            o.put(1);
            o.put(*x);
        }
    }
}
rt_h!(c01_rt_opt_u8, 26, Option<u8>, kani::any(), ty(TypeInner::Opt(ty(TypeInner::Nat8))), enc_opt_u8,
      |a: &Option<u8>, b: &Option<u8>| a == b);
fn enc_opt_opt_bool(v: &Option<Option<bool>>, o: &mut Out) {
    match v {
        None => o.put(0),
        Some(None) => {
            o.put(1);
            o.put(0);
        }
        Some(Some(b)) => {
            o.put(1);
            o.put(1);
            o.put(*b as u8);
        }
    }
}
rt_h!(c01_rt_opt_opt_bool, 26, Option<Option<bool>>, kani::any(),
      ty(TypeInner::Opt(ty(TypeInner::Opt(ty(TypeInner::Bool))))), enc_opt_opt_bool,
      |a: &Option<Option<bool>>, b: &Option<Option<bool>>| a == b);
fn mk_opt_string() -> Option<String> {
    if kani::any() { Some(mk_string2()) } else { None }
}
fn enc_opt_string(v: &Option<String>, o: &mut Out) {
    match v {
        None => o.put(0),
        Some(s) => {
            o.put(1);
            enc_str(s, o);
        }
    }
}
rt_h!(c01_rt_opt_string, 26, Option<String>, mk_opt_string(), ty(TypeInner::Opt(ty(TypeInner::Text))), enc_opt_string,
      |a: &Option<String>, b: &Option<String>| a == b);

// ---- tuples (records with positional fields)
fn ty_tuple2(a: TypeInner, b: TypeInner) -> Type {
    ty(TypeInner::Record(vec![fld(Label::Id(0), ty(a)), fld(Label::Id(1), ty(b))]))
}
rt_h!(c01_rt_tuple_u8_i32, 26, (u8, i32), (kani::any(), kani::any()), ty_tuple2(TypeInner::Nat8, TypeInner::Int32),
      |v: &(u8, i32), o: &mut Out| { o.put(v.0); o.le(v.1 as u32 as u64, 4); }, |a: &(u8, i32), b: &(u8, i32)| a == b);
rt_h!(c01_rt_tuple_bool_u16, 26, (bool, u16), (kani::any(), kani::any()), ty_tuple2(TypeInner::Bool, TypeInner::Nat16),
      |v: &(bool, u16), o: &mut Out| { o.put(v.0 as u8); o.le(v.1 as u64, 2); }, |a: &(bool, u16), b: &(bool, u16)| a == b);

// ---- vectors, concrete element count, symbolic elements (bulk little-endian path)
rt_h!(c01_rt_vec_u8_2, 26, Vec<u8>, vec![kani::any(), kani::any()], ty(TypeInner::Vec(ty(TypeInner::Nat8))),
      |v: &Vec<u8>, o: &mut Out| { o.leb(2); o.put(v[0]); o.put(v[1]); }, |a: &Vec<u8>, b: &Vec<u8>| a.len() == 2 && b.len() == 2 && a[0] == b[0] && a[1] == b[1]);
rt_h!(c01_rt_vec_u16_2, 26, Vec<u16>, vec![kani::any(), kani::any()], ty(TypeInner::Vec(ty(TypeInner::Nat16))),
      |v: &Vec<u16>, o: &mut Out| { o.leb(2); o.le(v[0] as u64, 2); o.le(v[1] as u64, 2); },
      |a: &Vec<u16>, b: &Vec<u16>| a.len() == 2 && b.len() == 2 && a[0] == b[0] && a[1] == b[1]);
rt_h!(c01_rt_vec_i64_1, 26, Vec<i64>, vec![kani::any()], ty(TypeInner::Vec(ty(TypeInner::Int64))),
      |v: &Vec<i64>, o: &mut Out| { o.leb(1); o.le(v[0] as u64, 8); }, |a: &Vec<i64>, b: &Vec<i64>| a.len() == 1 && b.len() == 1 && a[0] == b[0]);
rt_h!(c01_rt_vec_bool_2, 26, Vec<bool>, vec![kani::any(), kani::any()], ty(TypeInner::Vec(ty(TypeInner::Bool))),
      |v: &Vec<bool>, o: &mut Out| { o.leb(2); o.put(v[0] as u8); o.put(v[1] as u8); },
      |a: &Vec<bool>, b: &Vec<bool>| a.len() == 2 && b.len() == 2 && a[0] == b[0] && a[1] == b[1]);
rt_h!(c01_rt_vec_f32_1, 26, Vec<f32>, vec![kani::any()], ty(TypeInner::Vec(ty(TypeInner::Float32))),
      |v: &Vec<f32>, o: &mut Out| { o.leb(1); o.le(v[0].to_bits() as u64, 4); },
      |a: &Vec<f32>, b: &Vec<f32>| a.len() == 1 && b.len() == 1 && a[0].to_bits() == b[0].to_bits());
rt_h!(c01_rt_vec_empty_u32, 26, Vec<u32>, Vec::new(), ty(TypeInner::Vec(ty(TypeInner::Nat32))),
      |_v: &Vec<u32>, o: &mut Out| { o.leb(0); }, |a: &Vec<u32>, b: &Vec<u32>| a.is_empty() && b.is_empty());
// element-wise path (non-primitive elements)
rt_h!(c01_rt_vec_opt_u8_2, 26, Vec<Option<u8>>, vec![kani::any(), kani::any()],
      ty(TypeInner::Vec(ty(TypeInner::Opt(ty(TypeInner::Nat8))))),
      |v: &Vec<Option<u8>>, o: &mut Out| { o.leb(2); enc_opt_u8(&v[0], o); enc_opt_u8(&v[1], o); },
      |a: &Vec<Option<u8>>, b: &Vec<Option<u8>>| a.len() == 2 && b.len() == 2 && a[0] == b[0] && a[1] == b[1]);
rt_h!(c01_rt_vec_string_1, 26, Vec<String>, vec![mk_string2()], ty(TypeInner::Vec(ty(TypeInner::Text))),
      |v: &Vec<String>, o: &mut Out| { o.leb(1); enc_str(&v[0], o); },
      |a: &Vec<String>, b: &Vec<String>| a.len() == 1 && b.len() == 1 && a[0] == b[0]);

// transparent wrappers: the Candid type is the element's, the memory layout is not
rt_h!(c01_rt_vec_box_u64_1, 26, Vec<Box<u64>>, vec![Box::new(kani::any())], ty(TypeInner::Vec(ty(TypeInner::Nat64))),
      |v: &Vec<Box<u64>>, o: &mut Out| { o.leb(1); o.le(*v[0], 8); }, |a: &Vec<Box<u64>>, b: &Vec<Box<u64>>| a.len() == 1 && b.len() == 1 && *a[0] == *b[0]);
rt_h!(c01_rt_vec_box_u32_2, 26, Vec<Box<u32>>, vec![Box::new(kani::any()), Box::new(kani::any())], ty(TypeInner::Vec(ty(TypeInner::Nat32))),
      |v: &Vec<Box<u32>>, o: &mut Out| { o.leb(2); o.le(*v[0] as u64, 4); o.le(*v[1] as u64, 4); },
      |a: &Vec<Box<u32>>, b: &Vec<Box<u32>>| a.len() == 2 && b.len() == 2 && *a[0] == *b[0] && *a[1] == *b[1]);

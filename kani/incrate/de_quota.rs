// C07: quotas bound work and never change the result. Three decoder runs over the same
// symbolic bytes and types: (A) unmetered, (B) metered with symbolic (dq, sq), (C) metered
// with (dq', sq') >= (dq, sq) pointwise.
//   result-neutral : B Ok  =>  A Ok with the same value and cursor
//   monotone       : B Ok  =>  C Ok with the same value
//   cost is a function of the message, not of the quotas: B Ok && C Ok => cost(B) == cost(C)
//                    (cost = DecoderConfig::compute_cost, as a user would measure it)
//   sufficient quota: A Ok && B Err => the quota really was below the cost measured by C (if C Ok)
//   charged        : cost >= 1 per materialised/skipped value; <= c x documented model
use super::common::*;
use super::super::*;
use crate::types::{Field, Label, Type, TypeInner};
use serde::Deserialize;

fn fld(id: Label, t: Type) -> Field {
    Field { id: id.into(), ty: t }
}
fn cfg_q(dq: Option<usize>, sq: Option<usize>) -> DecoderConfig {
    DecoderConfig { decoding_quota: dq, skipping_quota: sq, max_type_len: None, full_error_message: false }
}
fn le_opt(a: Option<usize>, b: Option<usize>) -> bool {
    match (a, b) {
        (Some(x), Some(y)) => x <= y,
        (None, None) => true,
        (Some(_), None) => true, // None = unlimited
        (None, Some(_)) => false,
    }
}

macro_rules! quota3_h {
    ($name:ident, $T:ty, $n:expr, $unw:expr, $mkw:expr, $mke:expr, $eq:expr, $min_cost:expr, $max_cost:expr, $mac:ident) => {
        $mac! {
            #[kani::unwind($unw)]
            fn $name() {
                const N: usize = $n;
                let buf: [u8; N] = kani::any();
                let dq: Option<usize> = kani::any();
                let sq: Option<usize> = kani::any();
                let dq2: Option<usize> = kani::any();
                let sq2: Option<usize> = kani::any();
                kani::assume(le_opt(dq, dq2) && le_opt(sq, sq2));
                kani::assume(dq.is_some() == dq2.is_some() && sq.is_some() == sq2.is_some());
                // A: unmetered
                let mut da = mk_de(&buf[..], $mkw, $mke, cfg_q(None, None));
                let ra = <$T>::deserialize(&mut da);
                let pa = da.input.position();
                // B: metered
                let cb0 = cfg_q(dq, sq);
                let mut db = mk_de(&buf[..], $mkw, $mke, cb0.clone());
                let rb = <$T>::deserialize(&mut db);
                let pb = db.input.position();
                // C: larger quotas
                let cc0 = cfg_q(dq2, sq2);
                let mut dc = mk_de(&buf[..], $mkw, $mke, cc0.clone());
                let rc = <$T>::deserialize(&mut dc);
                if let Ok(vb) = &rb {
                    match &ra {
                        Ok(va) => std::assert!(($eq)(va, vb) && pa == pb, "metered decoding returned a different result than unmetered decoding"),
                        Err(_) => std::assert!(false, "metered decoding succeeded where unmetered decoding fails"),
                    }
                    match &rc {
                        Ok(vc) => {
                            std::assert!(($eq)(vb, vc), "larger quotas changed the result");
                            let kb = db.config.compute_cost(&cb0);
                            let kc = dc.config.compute_cost(&cc0);
                            std::assert!(kb.decoding_quota == kc.decoding_quota, "reported decoding cost depends on the quota supplied");
                            std::assert!(kb.skipping_quota == kc.skipping_quota, "reported skipping cost depends on the quota supplied");
                            if let Some(c) = kb.decoding_quota {
                                std::assert!(c >= $min_cost, "values were materialised or skipped without being charged");
                                std::assert!(c <= $max_cost, "cost exceeds the documented model by more than the allowed factor");
                                // a quota below the cost must not succeed
                                std::assert!(dq.unwrap() >= c, "decode succeeded with a quota below its own cost");
                            }
                        }
                        Err(_) => std::assert!(false, "success is not monotone: larger quotas fail where smaller ones succeed"),
                    }
                }
                if let (Ok(_), Err(_), Ok(_)) = (&ra, &rb, &rc) {
                    // B failed only because of a quota: C's measured cost must exceed B's quota somewhere
                    let kc = dc.config.compute_cost(&cc0);
                    let d_short = match (dq, kc.decoding_quota) { (Some(q), Some(c)) => q < c, _ => false };
                    let s_short = match (sq, kc.skipping_quota) { (Some(q), Some(c)) => q < c, _ => false };
                    std::assert!(d_short || s_short, "an honest message was rejected although the quota covers its measured cost");
                }
                kani::cover!(rb.is_ok() && dq.is_some(), "metered success");
                kani::cover!(ra.is_ok() && rb.is_err() && rc.is_ok(), "quota error, larger quota succeeds");
                std::mem::forget(ra); std::mem::forget(rb); std::mem::forget(rc);
                std::mem::forget(da); std::mem::forget(db); std::mem::forget(dc);
            }
        }
    };
}

fn eq_u32(a: &u32, b: &u32) -> bool { a == b }
fn eq_opt_u8(a: &Option<u8>, b: &Option<u8>) -> bool { a == b }
fn eq_str(a: &&str, b: &&str) -> bool { a == b }
fn eq_t2(a: &(u8, bool), b: &(u8, bool)) -> bool { a == b }

// documented model: C(nat32)=4
quota3_h!(c07_q3_u32, u32, 4, 8, ty(TypeInner::Nat32), ty(TypeInner::Nat32), eq_u32, 1, 4 + 2, de_harness);
// C(text) = 1 + |t|  (<= 3 + 2)
quota3_h!(c07_q3_str, &str, 3, 8, ty(TypeInner::Text), ty(TypeInner::Text), eq_str, 1, 1 + 2 + 2, de_harness);
// opt nat8 at opt nat8: C = 2 + 1
quota3_h!(c07_q3_opt_same, Option<u8>, 2, 8, ty(TypeInner::Opt(ty(TypeInner::Nat8))), ty(TypeInner::Opt(ty(TypeInner::Nat8))),
          eq_opt_u8, 1, 3 + 2, de_harness);
// opt bool skipped at opt nat8: back-tracking (10) + 50x penalty on the skipped bool
quota3_h!(c07_q3_opt_skip, Option<u8>, 2, 8, ty(TypeInner::Opt(ty(TypeInner::Bool))), ty(TypeInner::Opt(ty(TypeInner::Nat8))),
          eq_opt_u8, 1, 2 + 10 + 50 * 1 + 8, de_harness);
// nat16 skipped (wire nat16 at expected opt nat8)
quota3_h!(c07_q3_plain_skip, Option<u8>, 2, 8, ty(TypeInner::Nat16), ty(TypeInner::Opt(ty(TypeInner::Nat8))),
          eq_opt_u8, 2, 2 + 10 + 50 * 2 + 8, de_harness);
// record {0:nat8; 1:bool} as a tuple: C = 2 + (7+..)*2 roughly; bound 40
quota3_h!(c07_q3_tuple, (u8, bool), 2, 8,
          ty(TypeInner::Record(vec![fld(Label::Id(0), ty(TypeInner::Nat8)), fld(Label::Id(1), ty(TypeInner::Bool))])),
          ty(TypeInner::Record(vec![fld(Label::Id(0), ty(TypeInner::Nat8)), fld(Label::Id(1), ty(TypeInner::Bool))])),
          eq_t2, 3, 40, de_harness);

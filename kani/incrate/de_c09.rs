//! C09, in-crate part: the decoder's 9-byte LEB fast paths and the 128-bit
//! entry points, on directly constructed decoder state.
use super::common::*;
use super::super::*;
use crate::types::{Type, TypeInner};
use serde::de::Deserializer as _;

// ---- oracle (same text as kani/ext/src/oracle.rs; include!d so it cannot drift)
include!("/verif/kani/ext/src/oracle.rs");

struct U128V;
impl<'de> Visitor<'de> for U128V {
    type Value = u128;
    fn expecting(&self, f: &mut std::fmt::Formatter) -> std::fmt::Result {
        f.write_str("u128")
    }
    fn visit_u128<E>(self, v: u128) -> std::result::Result<u128, E> {
        Ok(v)
    }
}
struct I128V;
impl<'de> Visitor<'de> for I128V {
    type Value = i128;
    fn expecting(&self, f: &mut std::fmt::Formatter) -> std::fmt::Result {
        f.write_str("i128")
    }
    fn visit_i128<E>(self, v: i128) -> std::result::Result<i128, E> {
        Ok(v)
    }
}

de_harness! {
    #[kani::unwind(13)]
    fn c09_fast_u64_le11() {
        const N: usize = 11;
        let buf: [u8; N] = kani::any();
        let len: usize = kani::any();
        kani::assume(len <= N);
        let start: usize = kani::any();
        kani::assume(start <= len);
        let mut de = mk_de(&buf[..len], TypeInner::Nat.into(), TypeInner::Nat.into(), cfg_none());
        de.input.set_position(start as u64);
        let r = de.try_read_leb_u64();
        // reference on the suffix
        let mut tail = [0u8; N];
        let mut i = 0;
        while i < N {
            if start + i < len {
                tail[i] = buf[start + i];
            }
            i += 1;
        }
        let o = ref_leb_u128(&tail, len - start);
        match &r {
            Ok(Some(v)) => {
                match o {
                    Leb::Val { v: ov, end } => {
                        std::assert!(*v as u128 == ov, "fast path value differs from LEB128 value");
                        std::assert!(de.input.position() as usize == start + end, "fast path consumed wrong number of bytes");
                    }
                    _ => std::assert!(false, "fast path returned a value for an unterminated/out-of-range string"),
                }
                kani::cover!(*v > u32::MAX as u64, "value above 2^32 via fast path");
            }
            Ok(None) => {
                // declined: internal; the end-to-end harnesses cover what happens next
                kani::cover!(true, "fast path declined");
            }
            Err(_) => {
                std::assert!(matches!(o, Leb::Unterminated), "fast path reported EOF on a terminated string");
                kani::cover!(len > start, "EOF inside a string");
            }
        }
        std::mem::forget(r);
        std::mem::forget(de);
    }
}

de_harness! {
    #[kani::unwind(13)]
    fn c09_fast_i64_le11() {
        const N: usize = 11;
        let buf: [u8; N] = kani::any();
        let len: usize = kani::any();
        kani::assume(len <= N);
        let start: usize = kani::any();
        kani::assume(start <= len);
        let mut de = mk_de(&buf[..len], TypeInner::Int.into(), TypeInner::Int.into(), cfg_none());
        de.input.set_position(start as u64);
        let r = de.try_read_leb_i64();
        let mut tail = [0u8; N];
        let mut i = 0;
        while i < N {
            if start + i < len {
                tail[i] = buf[start + i];
            }
            i += 1;
        }
        let o = ref_leb_i128(&tail, len - start);
        match &r {
            Ok(Some(v)) => {
                match o {
                    Leb::Val { v: ov, end } => {
                        std::assert!(*v as i128 == ov, "fast path value differs from SLEB128 value");
                        std::assert!(de.input.position() as usize == start + end, "fast path consumed wrong number of bytes");
                    }
                    _ => std::assert!(false, "fast path returned a value for an unterminated/out-of-range string"),
                }
                kani::cover!(*v < i32::MIN as i64, "value below -2^31 via fast path");
            }
            Ok(None) => {
                kani::cover!(true, "fast path declined");
            }
            Err(_) => {
                std::assert!(matches!(o, Leb::Unterminated), "fast path reported EOF on a terminated string");
                kani::cover!(len > start, "EOF inside a string");
            }
        }
        std::mem::forget(r);
        std::mem::forget(de);
    }
}

// u128 / i128 through the decoder entry points, wire type symbolic over all prims
macro_rules! de_u128_h {
    ($name:ident, $n:expr, $unw:expr, $mode:ident) => {
        de_harness! {
            #[kani::unwind($unw)]
            fn $name() {
                const N: usize = $n;
                let buf: [u8; N] = kani::any();
                let len: usize = len_mode!($mode, N);
                let w: u8 = kani::any();
                kani::assume(w < N_PRIM);
                let mut de = mk_de(&buf[..len], prim(w), TypeInner::Nat.into(), cfg_any());
                let r = (&mut de).deserialize_u128(U128V);
                let pos = de.input.position() as usize;
                std::assert!(pos <= len, "cursor beyond the input");
                match &r {
                    Ok(v) => {
                        std::assert!(w == 2, "u128 accepted a wire type other than nat");
                        match ref_leb_u128(&buf, len) {
                            Leb::Val { v: ov, end } => {
                                std::assert!(*v == ov, "u128 value differs from LEB128 value");
                                std::assert!(pos == end, "u128 consumed wrong number of bytes");
                            }
                            _ => std::assert!(false, "u128 decoded an unterminated/out-of-range nat"),
                        }
                        kani::cover!(N < 19 || *v >= 1u128 << 127, "value >= 2^127 decoded");
                    }
                    Err(_) => {
                        if w == 2 && de.config.decoding_quota.is_none() {
                            std::assert!(!matches!(ref_leb_u128(&buf, len), Leb::Val { .. }),
                                "in-range nat rejected by u128 without any quota");
                        }
                        kani::cover!(w == 2, "error on wire nat reached");
                    }
                }
                std::mem::forget(r);
                std::mem::forget(de);
            }
        }
    };
}
macro_rules! de_i128_h {
    ($name:ident, $n:expr, $unw:expr, $mode:ident) => {
        de_harness! {
            #[kani::unwind($unw)]
            fn $name() {
                const N: usize = $n;
                let buf: [u8; N] = kani::any();
                let len: usize = len_mode!($mode, N);
                let w: u8 = kani::any();
                kani::assume(w < N_PRIM);
                let mut de = mk_de(&buf[..len], prim(w), TypeInner::Int.into(), cfg_any());
                let r = (&mut de).deserialize_i128(I128V);
                let pos = de.input.position() as usize;
                std::assert!(pos <= len, "cursor beyond the input");
                match &r {
                    Ok(v) => {
                        std::assert!(w == 2 || w == 3, "i128 accepted a wire type other than nat/int");
                        if w == 3 {
                            match ref_leb_i128(&buf, len) {
                                Leb::Val { v: ov, end } => {
                                    std::assert!(*v == ov, "i128 value differs from SLEB128 value");
                                    std::assert!(pos == end, "i128 consumed wrong number of bytes");
                                }
                                _ => std::assert!(false, "i128 decoded an unterminated/out-of-range int"),
                            }
                        } else {
                            // nat read at int: value must be the nat's value and fit i128
                            match ref_leb_u128(&buf, len) {
                                Leb::Val { v: ov, end } => {
                                    std::assert!(ov <= i128::MAX as u128 && *v as u128 == ov, "nat read at i128 has wrong value");
                                    std::assert!(pos == end, "i128 consumed wrong number of bytes");
                                }
                                _ => std::assert!(false, "i128 decoded an unterminated/out-of-range nat"),
                            }
                        }
                        kani::cover!(w == 2, "nat read at int");
                        kani::cover!(w == 3 && *v < 0, "negative int decoded");
                    }
                    Err(_) => {
                        if de.config.decoding_quota.is_none() {
                            if w == 3 {
                                std::assert!(!matches!(ref_leb_i128(&buf, len), Leb::Val { .. }),
                                    "in-range int rejected by i128 without any quota");
                            }
                            if w == 2 {
                                if let Leb::Val { v: ov, .. } = ref_leb_u128(&buf, len) {
                                    std::assert!(ov > i128::MAX as u128, "nat that fits i128 rejected");
                                }
                            }
                        }
                        kani::cover!(w == 3, "error on wire int reached");
                    }
                }
                std::mem::forget(r);
                std::mem::forget(de);
            }
        }
    };
}
de_u128_h!(c09_de_u128_eq20, 20, 22, fixed);
de_i128_h!(c09_de_i128_eq20, 20, 22, fixed);
de_u128_h!(c09_de_u128_le4, 4, 6, symbolic);
de_i128_h!(c09_de_i128_le4, 4, 6, symbolic);


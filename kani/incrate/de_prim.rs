// C06 / C08 / C07: primitive, text and unit targets on directly constructed decoder
// state. Expected type fixed per harness (pooled, concrete); wire type symbolic over
// all 17 primitive types; value bytes and length symbolic; quotas symbolic.
//
// Oracle (from spec/Candid.md, M/T rules and the coercion relation restricted to
// primitives): a primitive value of wire type W is accepted at expected primitive
// type E iff W == E, except that nat is also accepted at int. Fixed-width numbers are
// little-endian, bool is one byte 0/1, text is LEB128 length + UTF-8 bytes, null is
// zero bytes.
use super::common::*;
use super::super::*;
use crate::types::{Type, TypeInner};
use serde::Deserialize;

include!("/verif/kani/ext/src/oracle.rs");

/// cost model bound used by the C07 part: the documented model says C(prim) = width,
/// C(text) = 1 + len, C(null) = 1. The decoder may charge a small constant on top.
fn le_bits(buf: &[u8], width: usize) -> u64 {
    let mut v: u64 = 0;
    let mut i = 0;
    while i < 8 {
        if i < width {
            v |= (buf[i] as u64) << (8 * i);
        }
        i += 1;
    }
    v
}

macro_rules! fixed_prim_h {
    ($name:ident, $T:ty, $esel:expr, $width:expr, $to_bits:expr) => {
        de_harness! {
            #[kani::unwind(10)]
            fn $name() {
                const W: usize = $width;
                const N: usize = W + 1;
                let buf: [u8; N] = kani::any();
                let len: usize = kani::any();
                kani::assume(len <= N);
                let w: u8 = kani::any();
                kani::assume(w < N_PRIM);
                let cfg = cfg_any();
                let q0 = cfg.decoding_quota;
                let mut de = mk_de(&buf[..len], prim(w), ty(prim_inner($esel)), cfg);
                let r = <$T>::deserialize(&mut de);
                let pos = de.input.position() as usize;
                std::assert!(pos <= len, "cursor beyond the input");
                let well_formed = len >= W && ($esel != 1 || buf[0] <= 1);
                match &r {
                    Ok(v) => {
                        std::assert!(w == $esel, "value accepted at a wire type the generic rules reject");
                        std::assert!(well_formed, "malformed value bytes accepted");
                        let bits: u64 = ($to_bits)(*v);
                        std::assert!(bits == le_bits(&buf, W), "decoded value differs from the little-endian bytes");
                        std::assert!(pos == W, "wrong number of bytes consumed");
                        // C07: charged at least one unit, at most width + small constant
                        if let (Some(a), Some(b)) = (q0, de.config.decoding_quota) {
                            std::assert!(a >= b && a - b >= 1, "a materialised value was not charged");
                            std::assert!(a - b <= W + 2, "cost exceeds the documented model");
                        }
                    }
                    Err(_) => {
                        if q0.is_none() {
                            std::assert!(!(w == $esel && well_formed), "well-formed value of the expected type rejected without a quota");
                        }
                    }
                }
                kani::cover!(r.is_ok(), "value decoded");
                kani::cover!(r.is_err() && w == $esel && q0.is_none(), "malformed bytes rejected");
                kani::cover!(r.is_err() && w == $esel && q0.is_some() && well_formed, "quota exhausted");
                std::mem::forget(r);
                std::mem::forget(de);
            }
        }
    };
}

fixed_prim_h!(c08_prim_bool, bool, 1, 1, |v: bool| v as u64);
fixed_prim_h!(c08_prim_u8, u8, 4, 1, |v: u8| v as u64);
fixed_prim_h!(c08_prim_u16, u16, 5, 2, |v: u16| v as u64);
fixed_prim_h!(c08_prim_u32, u32, 6, 4, |v: u32| v as u64);
fixed_prim_h!(c08_prim_u64, u64, 7, 8, |v: u64| v);
fixed_prim_h!(c08_prim_i8, i8, 8, 1, |v: i8| v as u8 as u64);
fixed_prim_h!(c08_prim_i16, i16, 9, 2, |v: i16| v as u16 as u64);
fixed_prim_h!(c08_prim_i32, i32, 10, 4, |v: i32| v as u32 as u64);
fixed_prim_h!(c08_prim_i64, i64, 11, 8, |v: i64| v as u64);
fixed_prim_h!(c08_prim_f32, f32, 12, 4, |v: f32| v.to_bits() as u64);
fixed_prim_h!(c08_prim_f64, f64, 13, 8, |v: f64| v.to_bits());

// ---- text (borrowed and owned): LEB128 length, then that many UTF-8 bytes
/// reference: Some((start,len)) of the text payload if well-formed
fn ref_text(buf: &[u8], blen: usize) -> Option<(usize, usize)> {
    match ref_leb_u128(buf, blen) {
        Leb::Val { v, end } => {
            if v > (blen - end) as u128 {
                return None;
            }
            let n = v as usize;
            if std::str::from_utf8(&buf[end..end + n]).is_ok() {
                Some((end, n))
            } else {
                None
            }
        }
        _ => None,
    }
}

macro_rules! text_h {
    ($name:ident, $T:ty, $n:expr, $unw:expr) => { text_h!($name, $T, $n, $unw, symbolic); };
    ($name:ident, $T:ty, $n:expr, $unw:expr, $mode:ident) => {
        de_harness! {
            #[kani::unwind($unw)]
            fn $name() {
                const N: usize = $n;
                let buf: [u8; N] = kani::any();
                let len: usize = len_mode!($mode, N);
                let w: u8 = kani::any();
                kani::assume(w < N_PRIM);
                let cfg = cfg_any();
                let q0 = cfg.decoding_quota;
                let mut de = mk_de(&buf[..len], prim(w), ty(TypeInner::Text), cfg);
                let r = <$T>::deserialize(&mut de);
                let pos = de.input.position() as usize;
                std::assert!(pos <= len, "cursor beyond the input");
                let o = ref_text(&buf, len);
                match &r {
                    Ok(v) => {
                        std::assert!(w == 14, "text accepted at a wire type the generic rules reject");
                        match o {
                            Some((s, n)) => {
                                let vb: &[u8] = v.as_bytes();
                                std::assert!(vb.len() == n, "text length differs from the LEB128 length prefix");
                                let mut i = 0;
                                while i < N {
                                    if i < n {
                                        std::assert!(vb[i] == buf[s + i], "text bytes differ from the wire bytes");
                                    }
                                    i += 1;
                                }
                                std::assert!(pos == s + n, "wrong number of bytes consumed");
                                if let (Some(a), Some(b)) = (q0, de.config.decoding_quota) {
                                    std::assert!(a >= b && a - b >= 1, "text not charged");
                                    std::assert!(a - b <= n + 1 + 2, "cost exceeds the documented model 1 + |t|");
                                }
                            }
                            None => std::assert!(false, "malformed text accepted"),
                        }
                    }
                    Err(_) => {
                        // completeness only for length prefixes of at most 9 bytes (the decoder's 63-bit length
                        // reader); rejecting a longer padded prefix is not forbidden by the property
                        let short_prefix = matches!(o, Some((s, _)) if s <= 9);
                        if q0.is_none() {
                            std::assert!(!(w == 14 && short_prefix), "well-formed text rejected without a quota");
                        }
                    }
                }
                kani::cover!(matches!(&r, Ok(v) if v.len() >= 2), "text of >= 2 bytes decoded");
                kani::cover!(r.is_err() && w == 14 && q0.is_none() && len > 1, "malformed text rejected");
                kani::cover!(r.is_ok() && buf[0] >= 0x80, "padded length prefix accepted");
                std::mem::forget(r);
                std::mem::forget(de);
            }
        }
    };
}
text_h!(c08_text_str_le5, &str, 5, 7);
text_h!(c08_text_string_le4, String, 4, 6);
// hostile length prefixes: up to 10 LEB bytes (values up to 2^64 and beyond) in a fixed 12-byte buffer
text_h!(c08_text_str_eq12, &str, 12, 14, fixed);

// ---- unit / null
de_harness! {
    #[kani::unwind(6)]
    fn c08_unit() {
        const N: usize = 2;
        let buf: [u8; N] = kani::any();
        let len: usize = kani::any();
        kani::assume(len <= N);
        let w: u8 = kani::any();
        kani::assume(w < N_PRIM);
        let cfg = cfg_any();
        let q0 = cfg.decoding_quota;
        let mut de = mk_de(&buf[..len], prim(w), ty(TypeInner::Null), cfg);
        let r = <()>::deserialize(&mut de);
        let pos = de.input.position() as usize;
        match &r {
            Ok(()) => {
                std::assert!(w == 0, "null accepted at a wire type other than null");
                std::assert!(pos == 0, "null consumed bytes");
                if let (Some(a), Some(b)) = (q0, de.config.decoding_quota) {
                    std::assert!(a > b, "zero-sized value was free");
                }
            }
            Err(_) => {
                if q0.is_none() {
                    std::assert!(w != 0, "null rejected");
                }
            }
        }
        kani::cover!(r.is_ok(), "null decoded");
        kani::cover!(r.is_err() && w == 0, "quota exhausted on null");
        std::mem::forget(r);
        std::mem::forget(de);
    }
}

// Option targets: the spec's opt coercion incl. back-tracking and skipping
// (recoverable_visit_some, deserialize_ignored_any, deserialize_any), decided for a
// case-split menu of wire types with symbolic value bytes and quotas.
//
// Oracle (spec/Candid.md, coercion at opt): expected `opt T`
//   wire null | reserved            -> None, nothing read
//   wire opt W', flag 0             -> None
//   wire opt W', flag 1             -> value of W' read; Some(v) if W' <: T else None
//   wire W (not null/reserved/opt)  -> value of W read;  Some(v) if W  <: T else None
//   malformed value bytes / bad flag / truncated input -> error, also below opt.
use super::common::*;
use super::super::*;
use crate::types::{Type, TypeInner};
use serde::Deserialize;

/// expected outcome of decoding a primitive wire value (selector `p`) at expected
/// `opt <prim e>`: Err, or (Some(payload offset)/None, bytes consumed)
#[derive(Clone, Copy, PartialEq, Eq, Debug)]
enum Exp {
    Err,
    None_(usize),
    Some_(usize), // value occupies buf[off..consumed], off = consumed - size
}
fn exp_plain(p: u8, e: u8, buf: &[u8], len: usize) -> Exp {
    if p == 0 || p == 15 {
        return Exp::None_(0);
    }
    match ref_prim_size(p, buf, len) {
        None => Exp::Err,
        Some(sz) => {
            if p == e { Exp::Some_(sz) } else { Exp::None_(sz) }
        }
    }
}
fn exp_under_opt(p: u8, e: u8, buf: &[u8], len: usize) -> Exp {
    if len == 0 {
        return Exp::Err;
    }
    match buf[0] {
        0 => Exp::None_(1),
        1 => match ref_prim_size(p, &buf[1..], len - 1) {
            None => Exp::Err,
            Some(sz) => {
                if p == e { Exp::Some_(1 + sz) } else { Exp::None_(1 + sz) }
            }
        },
        _ => Exp::Err,
    }
}


/// One harness = one concrete wire type (pooled): `match` on a symbolic selector makes
/// CBMC symex every arm even under `assume`, and single arms (nat, int, text) can be
/// heavy, so the menu is spread over harnesses. Value bytes and quotas stay symbolic.
macro_rules! opt1_h {
    ($name:ident, $T:ty, $esel:expr, $n:expr, $unw:expr, $under_opt:expr, $psel:expr, $val_ok:expr) => {
        opt1_h!(de_harness, $name, $T, $esel, $n, $unw, $under_opt, $psel, $val_ok);
    };
    ($mac:ident, $name:ident, $T:ty, $esel:expr, $n:expr, $unw:expr, $under_opt:expr, $psel:expr, $val_ok:expr) => {
        $mac! {
            #[kani::unwind($unw)]
            fn $name() {
                const N: usize = $n;
                let buf: [u8; N] = kani::any();
                let len: usize = N; // fixed: symbolic slice lengths blow up on the back-tracking path (measured)
                let cfg = cfg_any();
                let unmetered = cfg.decoding_quota.is_none() && cfg.skipping_quota.is_none();
                let sq0 = cfg.skipping_quota;
                let dq0 = cfg.decoding_quota;
                let psel: u8 = $psel;
                let pt = ty(prim_inner($psel));
                let et = ty(TypeInner::Opt(ty(prim_inner($esel))));
                let wt = if $under_opt { ty(TypeInner::Opt(pt)) } else { pt };
                let mut de = mk_de(&buf[..len], wt, et, cfg);
                let r = <Option<$T>>::deserialize(&mut de);
                let pos = de.input.position() as usize;
                std::assert!(pos <= len, "cursor beyond the input");
                let exp = if $under_opt { exp_under_opt(psel, $esel, &buf, len) } else { exp_plain(psel, $esel, &buf, len) };
                match &r {
                    Ok(Some(v)) => {
                        match exp {
                            Exp::Some_(c) => {
                                std::assert!(pos == c, "wrong number of bytes consumed");
                                std::assert!(($val_ok)(*v, &buf, c), "decoded payload differs from the wire bytes");
                            }
                            _ => std::assert!(false, "Some(..) returned where the spec's coercion gives null or an error"),
                        }
                    }
                    Ok(None) => {
                        match exp {
                            Exp::None_(c) => {
                                std::assert!(pos == c, "skipped value: wrong number of bytes consumed");
                                // C07: skipped data is charged to the skipping quota, and is never free
                                if c > (if $under_opt { 1 } else { 0 }) {
                                    if let (Some(a), Some(b)) = (sq0, de.config.skipping_quota) {
                                        std::assert!(a > b, "skipped value not charged to the skipping quota");
                                    }
                                }
                                if let (Some(a), Some(b)) = (dq0, de.config.decoding_quota) {
                                    std::assert!(a > b, "decoding an option was free");
                                }
                            }
                            _ => std::assert!(false, "null returned where the spec's coercion gives a value or an error"),
                        }
                    }
                    Err(_) => {
                        if unmetered {
                            std::assert!(exp == Exp::Err, "well-formed message rejected without a quota");
                        }
                    }
                }
                kani::cover!(r.is_ok() == (exp != Exp::Err) && unmetered, "outcome agrees with the oracle (witness)");
                kani::cover!(!unmetered, "metered run reached");
                std::mem::forget(r);
                std::mem::forget(de);
            }
        }
    };
}

fn u8_ok(v: u8, buf: &[u8], c: usize) -> bool { v == buf[c - 1] }
fn bool_ok(v: bool, buf: &[u8], c: usize) -> bool { (v as u8) == buf[c - 1] }

macro_rules! opt_family {
    ($T:ty, $esel:expr, $n:expr, $under:expr, $ok:expr; $($name:ident = $p:expr),* $(,)?) => {
        $( opt1_h!($name, $T, $esel, $n, 6, $under, $p, $ok); )*
    };
}
// Buffer length per wire type: long enough that fixed-width values are never truncated
// (truncated reads create io::Error values whose drop glue CBMC cannot resolve; EOF handling
// is covered by the primitive harnesses with symbolic length), plus explicit short variants.
macro_rules! opt_family {
    ($T:ty, $esel:expr, $under:expr, $ok:expr; $($mac:ident $name:ident = $p:expr, $n:expr);* $(;)?) => {
        $( opt1_h!($mac, $name, $T, $esel, $n, 12, $under, $p, $ok); )*
    };
}
opt_family!(u8, 4, false, u8_ok;
    de_harness c08_opt_u8_w_null = 0, 2; de_harness c08_opt_u8_w_bool = 1, 3; de_harness_bn c08_opt_u8_w_nat = 2, 4;
    de_harness_bn c08_opt_u8_w_int = 3, 4; de_harness c08_opt_u8_w_nat8 = 4, 3; de_harness c08_opt_u8_w_nat16 = 5, 4;
    de_harness c08_opt_u8_w_nat32 = 6, 6; de_harness c08_opt_u8_w_nat64 = 7, 10; de_harness c08_opt_u8_w_int8 = 8, 3;
    de_harness c08_opt_u8_w_int16 = 9, 4; de_harness c08_opt_u8_w_int32 = 10, 6; de_harness c08_opt_u8_w_int64 = 11, 10;
    de_harness c08_opt_u8_w_f32 = 12, 6; de_harness c08_opt_u8_w_f64 = 13, 10; de_harness c08_opt_u8_w_text = 14, 4;
    de_harness c08_opt_u8_w_reserved = 15, 2; de_harness c08_opt_u8_w_empty = 16, 2);
opt_family!(u8, 4, true, u8_ok;
    de_harness c08_opt_u8_wo_null = 0, 3; de_harness c08_opt_u8_wo_bool = 1, 4; de_harness_bn c08_opt_u8_wo_nat = 2, 5;
    de_harness_bn c08_opt_u8_wo_int = 3, 5; de_harness c08_opt_u8_wo_nat8 = 4, 4; de_harness c08_opt_u8_wo_nat16 = 5, 5;
    de_harness c08_opt_u8_wo_nat32 = 6, 7; de_harness c08_opt_u8_wo_nat64 = 7, 11; de_harness c08_opt_u8_wo_int8 = 8, 4;
    de_harness c08_opt_u8_wo_int16 = 9, 5; de_harness c08_opt_u8_wo_int32 = 10, 7; de_harness c08_opt_u8_wo_int64 = 11, 11;
    de_harness c08_opt_u8_wo_f32 = 12, 7; de_harness c08_opt_u8_wo_f64 = 13, 11; de_harness c08_opt_u8_wo_text = 14, 5;
    de_harness c08_opt_u8_wo_reserved = 15, 3; de_harness c08_opt_u8_wo_empty = 16, 3);
// truncated input below opt must be an error, not null
opt_family!(u8, 4, true, u8_ok; de_harness c08_opt_u8_wo_text_n2 = 14, 2);
// expected opt bool (payload validity matters: 0x02 below opt is an error, not null)
opt_family!(bool, 1, true, bool_ok; de_harness c08_opt_bool_wo_bool = 1, 3; de_harness c08_opt_bool_wo_nat8 = 4, 3;
    de_harness c08_opt_bool_wo_text = 14, 4);
opt_family!(bool, 1, false, bool_ok; de_harness c08_opt_bool_w_bool = 1, 2; de_harness c08_opt_bool_w_nat8 = 4, 2);

// wire `opt blob` (vec nat8) skipped at expected `opt nat8`: the skipped value goes through
// deserialize_any -> deserialize_blob; hostile (huge / padded) length prefixes included.
include!("/verif/kani/ext/src/oracle.rs");
de_harness! {
    #[kani::unwind(14)]
    fn c08_opt_u8_wo_blob_eq12() {
        const N: usize = 12;
        let buf: [u8; N] = kani::any();
        let cfg = cfg_any();
        let unmetered = cfg.decoding_quota.is_none() && cfg.skipping_quota.is_none();
        let et = ty(TypeInner::Opt(ty(TypeInner::Nat8)));
        let wt = ty(TypeInner::Opt(ty(TypeInner::Vec(ty(TypeInner::Nat8)))));
        let mut de = mk_de(&buf[..], wt, et, cfg);
        let r = <Option<u8>>::deserialize(&mut de);
        let pos = de.input.position() as usize;
        std::assert!(pos <= N, "cursor beyond the input");
        // reference
        let mut tail = [0u8; N];
        let mut i = 1;
        while i < N { tail[i - 1] = buf[i]; i += 1; }
        let exp: Option<usize> = match buf[0] {
            0 => Some(1),
            1 => match ref_leb_u128(&tail, N - 1) {
                Leb::Val { v, end } => if v <= (N - 1 - end) as u128 { Some(1 + end + v as usize) } else { None },
                _ => None,
            },
            _ => None,
        };
        match &r {
            Ok(None) => match exp {
                Some(c) => std::assert!(pos == c, "skipped blob: wrong number of bytes consumed"),
                None => std::assert!(false, "malformed blob below opt accepted as null"),
            },
            Ok(Some(_)) => std::assert!(false, "a blob was read as nat8"),
            Err(_) => if unmetered { std::assert!(exp.is_none(), "well-formed message rejected without a quota") },
        }
        kani::cover!(matches!(r, Ok(None)) && pos > 4, "blob of >= 2 bytes skipped");
        kani::cover!(r.is_err() && buf[0] == 1 && buf[1] == 0xff && buf[9] == 0xff, "huge length prefix rejected");
        std::mem::forget(r);
        std::mem::forget(de);
    }
}

// ---------------------------------------------------------------- reserved
// `candid::Reserved` at expected type `reserved`: any wire value is accepted and skipped
// (spec: every type is a subtype of reserved); malformed bytes are still an error; skipped
// data is charged to the skipping quota and is never free.
macro_rules! reserved_h {
    ($mac:ident, $name:ident, $psel:expr, $n:expr) => {
        $mac! {
            #[kani::unwind(12)]
            fn $name() {
                const N: usize = $n;
                let buf: [u8; N] = kani::any();
                let cfg = cfg_any();
                let unmetered = cfg.decoding_quota.is_none() && cfg.skipping_quota.is_none();
                let sq0 = cfg.skipping_quota;
                let mut de = mk_de(&buf[..], ty(prim_inner($psel)), ty(TypeInner::Reserved), cfg);
                let r = <crate::Reserved>::deserialize(&mut de);
                let pos = de.input.position() as usize;
                std::assert!(pos <= N, "cursor beyond the input");
                let exp = ref_prim_size($psel, &buf, N);
                match (&r, exp) {
                    (Ok(_), Some(sz)) => {
                        std::assert!(pos == sz, "skipped value: wrong number of bytes consumed");
                        if let (Some(a), Some(b)) = (sq0, de.config.skipping_quota) {
                            std::assert!(a > b, "skipped value not charged to the skipping quota");
                        }
                    }
                    (Ok(_), None) => std::assert!(false, "malformed value accepted at reserved"),
                    (Err(_), Some(_)) => std::assert!(!unmetered, "well-formed value rejected at reserved without a quota"),
                    (Err(_), None) => {}
                }
                kani::cover!(r.is_ok() == exp.is_some() && unmetered, "outcome as the spec requires");
                kani::cover!(!unmetered, "metered run reached");
                std::mem::forget(r);
                std::mem::forget(de);
            }
        }
    };
}
reserved_h!(de_harness, c08_reserved_w_null, 0, 2);
reserved_h!(de_harness, c08_reserved_w_bool, 1, 2);
reserved_h!(de_harness_bn, c08_reserved_w_nat, 2, 4);
reserved_h!(de_harness_bn, c08_reserved_w_int, 3, 4);
reserved_h!(de_harness, c08_reserved_w_nat8, 4, 2);
reserved_h!(de_harness, c08_reserved_w_nat16, 5, 3);
reserved_h!(de_harness, c08_reserved_w_nat32, 6, 5);
reserved_h!(de_harness, c08_reserved_w_nat64, 7, 9);
reserved_h!(de_harness, c08_reserved_w_int8, 8, 2);
reserved_h!(de_harness, c08_reserved_w_int16, 9, 3);
reserved_h!(de_harness, c08_reserved_w_int32, 10, 5);
reserved_h!(de_harness, c08_reserved_w_int64, 11, 9);
reserved_h!(de_harness, c08_reserved_w_f32, 12, 5);
reserved_h!(de_harness, c08_reserved_w_f64, 13, 9);
reserved_h!(de_harness, c08_reserved_w_text, 14, 4);
reserved_h!(de_harness, c08_reserved_w_reserved, 15, 2);
reserved_h!(de_harness, c08_reserved_w_empty, 16, 2);

// Public-API confirmation of the C20 kernel finding (c20_num_*): a configured range with l > r.
// Drop into /repo/rust/candid_parser/tests/ and run
//   cargo test -p candid_parser --features random --test random_range_demo
// Panics inside arbitrary::int_in_range on the pinned tree; returns Err after the fix: commit.
use candid::types::{TypeEnv, TypeInner};
use candid_parser::configs::Configs;
use candid_parser::random::any;

#[test]
fn inverted_range_is_an_error_not_a_panic() {
    let cfg: Configs = "[random]\nrange = [5, 1]\n".parse().unwrap();
    let env = TypeEnv::new();
    let seed = [7u8; 64];
    let r = std::panic::catch_unwind(std::panic::AssertUnwindSafe(|| {
        any(&seed, cfg.clone(), &env, &[TypeInner::Nat8.into()], &None)
    }));
    match r {
        Ok(res) => assert!(res.is_err(), "an inverted range produced a value: {:?}", res),
        Err(_) => panic!("the generator panicked on range = [5, 1]"),
    }
}

use candid::{Decode, Encode};
#[test]
fn tuple_surplus_field_then_next_arg() {
    // record {0:nat8; 1:bool; 2:nat16} <: record {0:nat8; 1:bool}: the surplus field is dropped
    let bytes = Encode!(&(42u8, true, 7u16), &99u8).unwrap();
    assert_eq!(Decode!(&bytes, (u8, bool), u8).unwrap(), ((42u8, true), 99u8));
}
#[test]
fn tuple_surplus_field_alone() {
    let bytes = Encode!(&(42u8, true, 7u16)).unwrap();
    assert_eq!(Decode!(&bytes, (u8, bool)).unwrap(), (42u8, true));
}

// Public-API confirmation of the defects found by the decoder-state harnesses.
// Drop into /repo/rust/candid/tests/ and run `cargo test -p candid --test public_api_demo`.
// Each test FAILS on the pinned tree (616d33a + hooks) and passes after the corresponding fix: commit.
use candid::{Decode, Encode, Int, Nat};
use std::collections::BTreeMap;

#[test]
fn borrowed_bytes_reject_wire_text() {
    // wire type text, expected &[u8] / serde_bytes::Bytes (vec nat8): the generic rules reject it
    let bytes = Encode!(&"abc").unwrap();
    let r = Decode!(&bytes, &serde_bytes::Bytes);
    assert!(r.is_err(), "wire text was accepted as a byte slice: {:?}", r);
}
#[test]
fn borrowed_bytes_reject_wire_vec_int8() {
    let bytes = Encode!(&vec![1i8, 2, 3]).unwrap();
    let r = Decode!(&bytes, &serde_bytes::Bytes);
    assert!(r.is_err(), "wire vec int8 was accepted as a byte slice: {:?}", r);
}
#[test]
fn text_keyed_map_rejects_blob_values() {
    let mut m: BTreeMap<String, Vec<u8>> = BTreeMap::new();
    m.insert("k".to_string(), b"hi".to_vec());
    let bytes = Encode!(&m).unwrap();
    let r = Decode!(&bytes, BTreeMap<String, String>);
    assert!(r.is_err(), "vec record {{text; vec nat8}} was accepted as map<text,text>: {:?}", r);
}
#[test]
fn map_int_nat_round_trips() {
    let mut m: BTreeMap<Int, Nat> = BTreeMap::new();
    m.insert(Int::from(-3), Nat::from(7u32));
    let bytes = Encode!(&m).unwrap();
    let back = Decode!(&bytes, BTreeMap<Int, Nat>).unwrap();
    assert_eq!(back, m);
}
#[test]
fn map_u32_int_round_trips() {
    let mut m: BTreeMap<u32, Int> = BTreeMap::new();
    m.insert(5, Int::from(-9));
    let bytes = Encode!(&m).unwrap();
    let back = Decode!(&bytes, BTreeMap<u32, Int>).unwrap();
    assert_eq!(back, m);
}
